//! build_probe: the build-script API of leptos_i18n_build on project directories.
//! stdin: {"id":..,"dir":"/abs/project","out":"/abs/outdir"|null}
use std::cell::RefCell;
use std::io::{BufRead, Write};
use std::panic::{catch_unwind, AssertUnwindSafe};

use leptos_i18n_build::TranslationsInfos;
use serde_json::{json, Value};

thread_local! {
    static LAST_PANIC: RefCell<Option<(String, String)>> = const { RefCell::new(None) };
}

fn run(dir: &str, out: Option<&str>) -> Value {
    let infos = match TranslationsInfos::parse_at_dir(dir) {
        Ok(i) => i,
        Err(e) => return json!({"outcome": "err", "err": e.to_string()}),
    };
    let mut keys: Vec<String> = infos.get_icu_keys().map(|k| k.path().get().to_string()).collect();
    keys.sort();
    let locales: Vec<String> = infos.get_locales().map(|l| l.to_string()).collect();
    let langids: Vec<String> = infos.get_locales_langids().map(|l| l.to_string()).collect();
    let namespaces: Option<Vec<String>> = infos.get_namespaces().map(|it| it.map(|n| n.to_string()).collect());
    let files: Vec<String> = infos.files_paths().to_vec();
    let mut written = Value::Null;
    if let Some(out) = out {
        written = match infos.get_translations().write_to_dir(out) {
            Ok(()) => json!("ok"),
            Err(e) => json!(format!("io error: {}", e)),
        };
    }
    json!({"outcome": "ok", "icu_keys": keys, "locales": locales, "langids": langids, "namespaces": namespaces, "files": files, "written": written})
}

fn main() {
    std::panic::set_hook(Box::new(|info| {
        let msg = info.payload().downcast_ref::<&str>().map(|s| s.to_string())
            .or_else(|| info.payload().downcast_ref::<String>().cloned()).unwrap_or_default();
        let loc = info.location().map(|l| format!("{}:{}", l.file(), l.line())).unwrap_or_default();
        LAST_PANIC.with(|p| *p.borrow_mut() = Some((msg, loc)));
    }));
    let stdin = std::io::stdin();
    let stdout = std::io::stdout();
    let mut o = stdout.lock();
    for line in stdin.lock().lines() {
        let Ok(line) = line else { break };
        let Ok(req) = serde_json::from_str::<Value>(&line) else { continue };
        writeln!(o, "{}", json!({"begin": req["id"]})).ok();
        o.flush().ok();
        let dir = req["dir"].as_str().unwrap_or("").to_string();
        let out = req["out"].as_str().map(|s| s.to_string());
        let r = catch_unwind(AssertUnwindSafe(|| run(&dir, out.as_deref())));
        let mut v = match r {
            Ok(v) => v,
            Err(_) => {
                let (msg, loc) = LAST_PANIC.with(|p| p.borrow_mut().take()).unwrap_or_default();
                json!({"outcome": "panic", "msg": msg, "loc": loc})
            }
        };
        v["id"] = req["id"].clone();
        writeln!(o, "{}", v).ok();
        o.flush().ok();
    }
}
