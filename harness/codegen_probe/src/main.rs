//! codegen_probe: the real code generator of leptos_i18n_macro, run in-process (the macro sources
//! are `#[path]`-included as modules of this crate; proc-macro2 runs in fallback mode).
//! stdin: {"id":..,"dir":"/abs/project","tokens":bool}  stdout: {"id":..,"outcome":"ok|err|panic",..}
#![allow(warnings)]
extern crate proc_macro;

include!("mods.rs");

use std::cell::RefCell;
use std::io::{BufRead, Write};
use std::panic::{catch_unwind, AssertUnwindSafe};

use serde_json::{json, Value};

thread_local! {
    static LAST_PANIC: RefCell<Option<(String, String)>> = const { RefCell::new(None) };
}

fn fnv(s: &str) -> String {
    let mut h: u64 = 0xcbf29ce484222325;
    for b in s.bytes() {
        h ^= b as u64;
        h = h.wrapping_mul(0x100000001b3);
    }
    format!("{:016x}", h)
}

fn main() {
    std::panic::set_hook(Box::new(|info| {
        let msg = info
            .payload()
            .downcast_ref::<&str>()
            .map(|s| s.to_string())
            .or_else(|| info.payload().downcast_ref::<String>().cloned())
            .unwrap_or_default();
        let loc = info.location().map(|l| format!("{}:{}", l.file(), l.line())).unwrap_or_default();
        LAST_PANIC.with(|p| *p.borrow_mut() = Some((msg, loc)));
    }));
    let stdin = std::io::stdin();
    let stdout = std::io::stdout();
    let mut out = stdout.lock();
    for line in stdin.lock().lines() {
        let Ok(line) = line else { break };
        let Ok(req) = serde_json::from_str::<Value>(&line) else { continue };
        let dir = req["dir"].as_str().unwrap_or("").to_string();
        let want_tokens = req["tokens"].as_bool().unwrap_or(false);
        writeln!(out, "{}", json!({"begin": req["id"]})).ok();
        out.flush().ok();
        std::env::set_var("CARGO_MANIFEST_DIR", &dir);
        let r = catch_unwind(AssertUnwindSafe(|| load_locales::load_locales()));
        let mut v = match r {
            Ok(Ok(ts)) => {
                let s = ts.to_string();
                let mut v = json!({"outcome": "ok", "len": s.len(), "hash": fnv(&s)});
                if want_tokens {
                    v["tokens"] = json!(s);
                }
                v
            }
            Ok(Err(e)) => json!({"outcome": "err", "err": e.to_string()}),
            Err(p) => {
                let (msg, loc) = LAST_PANIC.with(|p| p.borrow_mut().take()).unwrap_or_default();
                json!({"outcome": "panic", "msg": msg, "loc": loc})
            }
        };
        v["id"] = req["id"].clone();
        writeln!(out, "{}", v).ok();
        out.flush().ok();
    }
}
