//! parser_probe: runs the real `leptos_i18n_parser` on project directories and dumps what it
//! returned as JSON lines. Observation only: no judgement happens here.
//!
//! stdin : one JSON object per line: {"id": .., "dir": "/abs/path", "mode": "full"|"raw"}
//! stdout: one JSON object per line: {"id": .., "outcome": "ok"|"err"|"panic", ...}
//!
//! `parser_probe plurals` reads {"locales": [..], "counts": [..], "decimals": [..]} and prints the
//! ICU4X plural categories (trusted CLDR oracle, independent of the code under test).
use std::cell::RefCell;
use std::collections::BTreeMap;
use std::io::{BufRead, Write};
use std::ops::Bound;
use std::panic::{catch_unwind, AssertUnwindSafe};
use std::path::PathBuf;

use leptos_i18n_parser::parse_locales::{
    cfg_file::ConfigFile,
    locale::{
        BuildersKeys, BuildersKeysInner, InterpolOrLit, Locale, LocaleValue, LocalesOrNamespaces,
        RangeOrPlural,
    },
    parse_locales, parse_locales_raw,
    parsed_value::{ForeignKey, Literal, ParsedValue},
    plurals::{PluralForm, PluralRuleType, Plurals},
    ranges::{Range, Ranges, UntypedRangesInner},
    warning::Warning,
};
use serde_json::{json, Map, Value};

thread_local! {
    static LAST_PANIC: RefCell<Option<(String, String)>> = const { RefCell::new(None) };
}

fn fmt_num<T: std::fmt::Debug>(v: &T) -> String {
    format!("{:?}", v)
}

fn dump_range<T: std::fmt::Debug>(r: &Range<T>) -> Value {
    match r {
        Range::Exact(v) => json!({"k": "exact", "v": fmt_num(v)}),
        Range::Bounds { start, end } => {
            let end = match end {
                Bound::Included(e) => json!({"k": "inc", "v": fmt_num(e)}),
                Bound::Excluded(e) => json!({"k": "exc", "v": fmt_num(e)}),
                Bound::Unbounded => json!({"k": "unb"}),
            };
            json!({"k": "bounds", "start": start.as_ref().map(fmt_num), "end": end})
        }
        Range::Multiple(items) => {
            json!({"k": "multi", "items": items.iter().map(dump_range).collect::<Vec<_>>()})
        }
        Range::Fallback => json!({"k": "fallback"}),
    }
}

fn dump_ranges_inner<T: std::fmt::Debug>(v: &[(Range<T>, ParsedValue)]) -> Value {
    Value::Array(
        v.iter()
            .map(|(r, pv)| json!({"range": dump_range(r), "value": dump_pv(pv)}))
            .collect(),
    )
}

fn dump_ranges(r: &Ranges) -> Value {
    let branches = match &r.inner {
        UntypedRangesInner::I8(v) => dump_ranges_inner(v),
        UntypedRangesInner::I16(v) => dump_ranges_inner(v),
        UntypedRangesInner::I32(v) => dump_ranges_inner(v),
        UntypedRangesInner::I64(v) => dump_ranges_inner(v),
        UntypedRangesInner::U8(v) => dump_ranges_inner(v),
        UntypedRangesInner::U16(v) => dump_ranges_inner(v),
        UntypedRangesInner::U32(v) => dump_ranges_inner(v),
        UntypedRangesInner::U64(v) => dump_ranges_inner(v),
        UntypedRangesInner::F32(v) => dump_ranges_inner(v),
        UntypedRangesInner::F64(v) => dump_ranges_inner(v),
    };
    json!({"t": "ranges", "count_key": &*r.count_key.name, "rtype": r.get_type().to_string(), "branches": branches})
}

fn form_name(f: PluralForm) -> &'static str {
    match f {
        PluralForm::Zero => "zero",
        PluralForm::One => "one",
        PluralForm::Two => "two",
        PluralForm::Few => "few",
        PluralForm::Many => "many",
        PluralForm::Other => "other",
    }
}

fn rule_name(r: PluralRuleType) -> &'static str {
    match r {
        PluralRuleType::Cardinal => "cardinal",
        PluralRuleType::Ordinal => "ordinal",
    }
}

fn dump_plurals(p: &Plurals) -> Value {
    let mut forms = Map::new();
    for (f, v) in &p.forms {
        forms.insert(form_name(*f).to_string(), dump_pv(v));
    }
    json!({"t": "plurals", "rule": rule_name(p.rule_type), "count_key": &*p.count_key.name, "forms": forms, "other": dump_pv(&p.other)})
}

fn dump_lit(l: &Literal) -> Value {
    match l {
        Literal::String(s, i) => {
            let idx = if *i == usize::MAX { Value::Null } else { json!(*i) };
            json!({"t": "lit", "k": "s", "v": s, "i": idx})
        }
        Literal::Signed(v) => json!({"t": "lit", "k": "i", "v": v.to_string()}),
        Literal::Unsigned(v) => json!({"t": "lit", "k": "u", "v": v.to_string()}),
        Literal::Float(v) => json!({"t": "lit", "k": "f", "v": v.to_string(), "dbg": format!("{:?}", v)}),
        Literal::Bool(v) => json!({"t": "lit", "k": "b", "v": v.to_string()}),
    }
}

fn dump_pv(pv: &ParsedValue) -> Value {
    match pv {
        ParsedValue::Default => json!({"t": "default"}),
        ParsedValue::ForeignKey(fk) => match fk.try_borrow() {
            Ok(fk) => match &*fk {
                ForeignKey::NotSet(path, args) => {
                    let mut a = Map::new();
                    for (k, v) in args {
                        a.insert(k.clone(), dump_pv(v));
                    }
                    json!({"t": "fk", "set": false, "path": path.to_string(), "args": a})
                }
                ForeignKey::Set(inner) => json!({"t": "fk", "set": true, "inner": dump_pv(inner)}),
            },
            Err(_) => json!({"t": "fk", "set": false, "borrowed": true}),
        },
        ParsedValue::Ranges(r) => dump_ranges(r),
        ParsedValue::Literal(l) => dump_lit(l),
        ParsedValue::Variable { key, formatter } => {
            json!({"t": "var", "key": &*key.name, "fmt": format!("{:?}", formatter)})
        }
        ParsedValue::Component { key, inner } => {
            json!({"t": "comp", "key": &*key.name, "inner": dump_pv(inner)})
        }
        ParsedValue::Bloc(items) => {
            json!({"t": "bloc", "items": items.iter().map(dump_pv).collect::<Vec<_>>()})
        }
        ParsedValue::Subkeys(l) => json!({"t": "subkeys", "locale": l.as_ref().map(dump_locale)}),
        ParsedValue::Plurals(p) => dump_plurals(p),
    }
}

fn dump_locale(l: &Locale) -> Value {
    // keys as an ordered list of pairs: the iteration order of the real map is itself an observation
    let keys: Vec<Value> = l
        .keys
        .iter()
        .map(|(k, v)| json!([&*k.name, dump_pv(v)]))
        .collect();
    json!({
        "name": &*l.name.name,
        "top": &*l.top_locale_name.name,
        "keys": keys,
        "strings": l.strings.iter().map(|s| s.to_string()).collect::<Vec<_>>(),
        "count": l.top_locale_string_count,
    })
}

fn dump_keys_inner(k: &BuildersKeysInner, locale_names: &[String]) -> Value {
    let items: Vec<Value> = k
        .0
        .iter()
        .map(|(key, v)| {
            let v = match v {
                LocaleValue::Value { value, defaults } => {
                    let mut computed = Map::new();
                    for (to, froms) in defaults.compute() {
                        computed.insert(
                            to.name.to_string(),
                            json!(froms.iter().map(|k| k.name.to_string()).collect::<Vec<_>>()),
                        );
                    }
                    let mut default_of = Map::new();
                    for l in locale_names {
                        if let Some(k) = leptos_i18n_parser::utils::Key::new(l) {
                            default_of.insert(l.clone(), json!(&*defaults.default_of(&k).name));
                        }
                    }
                    match value {
                        InterpolOrLit::Lit(t) => {
                            json!({"t": "value", "lit": format!("{:?}", t), "defaults": computed, "default_of": default_of})
                        }
                        InterpolOrLit::Interpol(ik) => {
                            let mut vars = Map::new();
                            for (k, info) in ik.iter_vars() {
                                let count = match info.range_count {
                                    None => Value::Null,
                                    Some(RangeOrPlural::Plural) => json!("plural"),
                                    Some(RangeOrPlural::Range(t)) => json!(format!("range:{}", t)),
                                };
                                vars.insert(
                                    k.name.to_string(),
                                    json!({"fmts": info.formatters.iter().map(|f| format!("{:?}", f)).collect::<Vec<_>>(), "count": count}),
                                );
                            }
                            let comps: Vec<String> = ik.iter_comps().map(|k| k.name.to_string()).collect();
                            json!({"t": "value", "lit": Value::Null, "vars": vars, "comps": comps, "defaults": computed, "default_of": default_of})
                        }
                    }
                }
                LocaleValue::Subkeys { locales, keys } => {
                    json!({"t": "subkeys", "locales": locales.iter().map(dump_locale).collect::<Vec<_>>(), "keys": dump_keys_inner(keys, locale_names)})
                }
            };
            json!([&*key.name, v])
        })
        .collect();
    Value::Array(items)
}

fn dump_builders_keys(bk: &BuildersKeys) -> Value {
    match bk {
        BuildersKeys::NameSpaces { namespaces, keys } => {
            let names: Vec<String> = namespaces
                .first()
                .map(|ns| ns.locales.iter().map(|l| l.name.name.to_string()).collect())
                .unwrap_or_default();
            let ns: Vec<Value> = namespaces
                .iter()
                .map(|ns| json!({"key": &*ns.key.name, "locales": ns.locales.iter().map(dump_locale).collect::<Vec<_>>()}))
                .collect();
            let k: Vec<Value> = keys
                .iter()
                .map(|(k, v)| json!([&*k.name, dump_keys_inner(v, &names)]))
                .collect();
            json!({"kind": "namespaces", "namespaces": ns, "keys": k})
        }
        BuildersKeys::Locales { locales, keys } => {
            let names: Vec<String> = locales.iter().map(|l| l.name.name.to_string()).collect();
            json!({"kind": "locales", "locales": locales.iter().map(dump_locale).collect::<Vec<_>>(), "keys": dump_keys_inner(keys, &names)})
        }
    }
}

fn dump_warning(w: &Warning) -> Value {
    let text = w.to_string();
    match w {
        Warning::MissingKey { locale, key_path } => {
            json!({"k": "missing", "locale": &*locale.name, "path": key_path.to_string(), "text": text})
        }
        Warning::SurplusKey { locale, key_path } => {
            json!({"k": "surplus", "locale": &*locale.name, "path": key_path.to_string(), "text": text})
        }
        Warning::UnusedForm { locale, key_path, form, rule_type } => {
            json!({"k": "unused_form", "locale": &*locale.name, "path": key_path.to_string(), "form": form_name(*form), "rule": rule_name(*rule_type), "text": text})
        }
        Warning::NonUnicodePath { locale, .. } => {
            json!({"k": "non_unicode_path", "locale": &*locale.name, "text": text})
        }
    }
}

fn dump_cfg(cfg: &ConfigFile) -> Value {
    let mut inh = Map::new();
    for (k, v) in &cfg.extensions {
        inh.insert(k.name.to_string(), json!(&*v.name));
    }
    json!({
        "default": &*cfg.default.name,
        "locales": cfg.locales.iter().map(|k| k.name.to_string()).collect::<Vec<_>>(),
        "namespaces": cfg.name_spaces.as_ref().map(|v| v.iter().map(|k| k.name.to_string()).collect::<Vec<_>>()),
        "locales_dir": &*cfg.locales_dir,
        "translations_uri": cfg.translations_uri,
        "inherits": inh,
    })
}

fn dump_raw(l: &LocalesOrNamespaces) -> Value {
    match l {
        LocalesOrNamespaces::NameSpaces(ns) => {
            let ns: Vec<Value> = ns
                .iter()
                .map(|ns| json!({"key": &*ns.key.name, "locales": ns.locales.iter().map(dump_locale).collect::<Vec<_>>()}))
                .collect();
            json!({"kind": "namespaces", "namespaces": ns})
        }
        LocalesOrNamespaces::Locales(locales) => {
            json!({"kind": "locales", "locales": locales.iter().map(dump_locale).collect::<Vec<_>>()})
        }
    }
}

fn run_one(dir: &str, mode: &str) -> Value {
    let path = PathBuf::from(dir);
    let res = catch_unwind(AssertUnwindSafe(|| match mode {
        "raw" => match parse_locales_raw(false, Some(path)) {
            Ok((locales, cfg, fk, warnings, tracked)) => {
                let fk: Vec<Value> = fk
                    .into_inner()
                    .into_iter()
                    .map(|(l, p)| json!([&*l.name, p.to_string()]))
                    .collect();
                json!({
                    "outcome": "ok",
                    "cfg": dump_cfg(&cfg),
                    "raw": dump_raw(&locales),
                    "foreign_keys": fk,
                    "warnings": warnings.into_inner().iter().map(dump_warning).collect::<Vec<_>>(),
                    "tracked": tracked,
                })
            }
            Err(e) => json!({"outcome": "err", "err": e.to_string(), "err_kind": err_kind(&e)}),
        },
        _ => match parse_locales(false, Some(path)) {
            Ok((bk, warnings, tracked)) if mode == "nodump" => {
                let _ = bk;
                json!({"outcome": "ok", "warnings": warnings.into_inner().len(), "tracked": tracked.len()})
            }
            Ok((bk, warnings, tracked)) => json!({
                "outcome": "ok",
                "bk": dump_builders_keys(&bk),
                "warnings": warnings.into_inner().iter().map(dump_warning).collect::<Vec<_>>(),
                "tracked": tracked,
            }),
            Err(e) => json!({"outcome": "err", "err": e.to_string(), "err_kind": err_kind(&e)}),
        },
    }));
    match res {
        Ok(v) => v,
        Err(payload) => {
            let (msg, loc) = LAST_PANIC.with(|p| p.borrow_mut().take()).unwrap_or_else(|| {
                let msg = payload
                    .downcast_ref::<&str>()
                    .map(|s| s.to_string())
                    .or_else(|| payload.downcast_ref::<String>().cloned())
                    .unwrap_or_default();
                (msg, String::new())
            });
            json!({"outcome": "panic", "msg": msg, "loc": loc})
        }
    }
}

fn err_kind(e: &leptos_i18n_parser::parse_locales::error::Error) -> String {
    let dbg = format!("{:?}", e);
    dbg.split(|c: char| !c.is_alphanumeric() && c != '_')
        .next()
        .unwrap_or("")
        .to_string()
}

fn plurals_table() {
    use fixed_decimal::FixedDecimal;
    use icu_plurals::{PluralCategory, PluralRuleType as Icu, PluralRules};
    let mut input = String::new();
    std::io::stdin().read_line(&mut input).unwrap();
    let req: Value = serde_json::from_str(&input).unwrap();
    let cat = |c: PluralCategory| match c {
        PluralCategory::Zero => "zero",
        PluralCategory::One => "one",
        PluralCategory::Two => "two",
        PluralCategory::Few => "few",
        PluralCategory::Many => "many",
        PluralCategory::Other => "other",
    };
    let mut out = Map::new();
    for l in req["locales"].as_array().unwrap() {
        let l = l.as_str().unwrap();
        let mut per = Map::new();
        let Ok(loc) = l.parse::<icu_locid::Locale>() else {
            out.insert(l.to_string(), json!({"error": "invalid locale"}));
            continue;
        };
        for (name, rt) in [("cardinal", Icu::Cardinal), ("ordinal", Icu::Ordinal)] {
            let rules = PluralRules::try_new(&(&loc).into(), rt).unwrap();
            let mut m = Map::new();
            for c in req["counts"].as_array().unwrap() {
                let s = c.as_str().unwrap();
                let category = if let Ok(u) = s.parse::<u64>() {
                    rules.category_for(u)
                } else if let Ok(i) = s.parse::<i64>() {
                    rules.category_for(i)
                } else {
                    let d: FixedDecimal = s.parse().unwrap();
                    rules.category_for(&d)
                };
                m.insert(s.to_string(), json!(cat(category)));
            }
            let cats: Vec<&str> = rules.categories().map(cat).collect();
            per.insert(name.to_string(), json!({"cat": m, "categories": cats}));
        }
        out.insert(l.to_string(), Value::Object(per));
    }
    println!("{}", Value::Object(out));
}

fn main() {
    let args: Vec<String> = std::env::args().collect();
    if args.get(1).map(String::as_str) == Some("plurals") {
        plurals_table();
        return;
    }
    std::panic::set_hook(Box::new(|info| {
        let msg = info
            .payload()
            .downcast_ref::<&str>()
            .map(|s| s.to_string())
            .or_else(|| info.payload().downcast_ref::<String>().cloned())
            .unwrap_or_default();
        let loc = info
            .location()
            .map(|l| format!("{}:{}", l.file(), l.line()))
            .unwrap_or_default();
        LAST_PANIC.with(|p| *p.borrow_mut() = Some((msg, loc)));
    }));
    let stdin = std::io::stdin();
    let stdout = std::io::stdout();
    let mut out = stdout.lock();
    let _unused: BTreeMap<(), ()> = BTreeMap::new();
    for line in stdin.lock().lines() {
        let Ok(line) = line else { break };
        if line.trim().is_empty() {
            continue;
        }
        let req: Value = match serde_json::from_str(&line) {
            Ok(v) => v,
            Err(_) => continue,
        };
        let dir = req["dir"].as_str().unwrap_or("");
        let mode = req["mode"].as_str().unwrap_or("full");
        // announce the case before running it so that a crash can be attributed to it
        writeln!(out, "{}", json!({"begin": req["id"]})).ok();
        out.flush().ok();
        let mut v = run_one(dir, mode);
        v["id"] = req["id"].clone();
        writeln!(out, "{}", v).ok();
        out.flush().ok();
    }
}
