//! router_probe: the path layer of leptos_i18n_router (through the `verif_hooks` feature) and a real
//! `I18nRoute` route tree built natively.
#![allow(clippy::all)]
use std::collections::HashMap;
use std::io::BufRead;

use leptos::prelude::*;
use leptos_i18n::Locale as LocaleTrait;
use leptos_i18n_router::__verif as hooks;
use leptos_router::components::RouteChildren;
use leptos_router::{MatchInterface, MatchNestedRoutes, NestedRoute, OptionalParamSegment, ParamSegment, PathSegment, SsrMode, StaticSegment, WildcardSegment};
use serde_json::{json, Value};

mod s0 {
    leptos_i18n::declare_locales! {
        path: leptos_i18n,
        interpolate_display,
        default: "en",
        locales: ["en", "fr", "en-US", "fr-CA", "it"],
        en: { search: "search", about: "about", item: "items" },
        fr: { search: "chercher", about: "a-propos", item: "articles" },
        en_US: { search: "search", about: "about-us", item: "items" },
        fr_CA: { search: "chercher", about: "a-propos", item: "items" },
        it: { search: "cerca", about: "chi-siamo", item: "it" },
    }
}
mod s1 {
    leptos_i18n::declare_locales! {
        path: leptos_i18n,
        interpolate_display,
        default: "fr",
        locales: ["fr", "en", "en-GB"],
        fr: { search: "chercher", about: "a-propos", item: "articles" },
        en: { search: "search", about: "about", item: "items" },
        en_GB: { search: "search", about: "about", item: "en" },
    }
}
mod s2 {
    leptos_i18n::declare_locales! {
        path: leptos_i18n,
        interpolate_display,
        default: "en-US",
        locales: ["en-US", "en", "de"],
        en_US: { search: "search", about: "about", item: "items" },
        en: { search: "search", about: "about", item: "items" },
        de: { search: "suche", about: "ueber", item: "de-artikel" },
    }
}

fn seg_json(s: &PathSegment) -> Value {
    match s {
        PathSegment::Unit => json!(["unit"]),
        PathSegment::Static(x) => json!(["static", x]),
        PathSegment::Param(x) => json!(["param", x]),
        PathSegment::OptionalParam(x) => json!(["optional", x]),
        PathSegment::Splat(x) => json!(["splat", x]),
    }
}

macro_rules! set_impl {
    ($name:ident, $m:ident) => {
        fn $name(req: &Value) -> Value {
            use $m::i18n::*;
            type L = Locale;
            let loc = |v: &Value| -> Option<L> { v.as_str().and_then(|s| s.parse::<L>().ok()) };
            let base: &'static str = Box::leak(req["base"].as_str().unwrap_or("/").to_string().into_boxed_str());
            let op = req["op"].as_str().unwrap_or("");
            let children = || {
                (
                    NestedRoute::new(StaticSegment(""), || ()),
                    NestedRoute::new(leptos_i18n_router::i18n_path!(L, |l: L| td_string!(l, about)), || ()),
                    NestedRoute::new((leptos_i18n_router::i18n_path!(L, |l: L| td_string!(l, search)), ParamSegment("q")), || ()),
                    NestedRoute::new((StaticSegment("users"), ParamSegment("id"), leptos_i18n_router::i18n_path!(L, |l: L| td_string!(l, item))), || ()),
                    NestedRoute::new((StaticSegment("opt"), OptionalParamSegment("maybe"), StaticSegment("end")), || ()),
                    NestedRoute::new((StaticSegment("docs"), ParamSegment("page"), leptos_i18n_router::i18n_path!(L, |l: L| td_string!(l, about)), WildcardSegment("tail")), || ()),
                    NestedRoute::new((StaticSegment("files"), WildcardSegment("rest")), || ()),
                    // a parent with a localized segment, an index child (trailing empty segment), a localized and a param child
                    NestedRoute::new((StaticSegment("team"), leptos_i18n_router::i18n_path!(L, |l: L| td_string!(l, about))), || ()).child((
                        NestedRoute::new(StaticSegment(""), || ()),
                        NestedRoute::new(leptos_i18n_router::i18n_path!(L, |l: L| td_string!(l, item)), || ()),
                        NestedRoute::new((StaticSegment("m"), ParamSegment("member")), || ()),
                    )),
                    NestedRoute::new(leptos_i18n_router::i18n_path!(L, |l: L| td_string!(l, item)), || ()).child(NestedRoute::new(StaticSegment(""), || ())),
                )
            };
            match op {
                "locale_from_path" => {
                    let l = hooks::get_locale_from_path::<L>(req["path"].as_str().unwrap(), base);
                    json!({"locale": l.map(|l| l.as_str())})
                }
                "table" | "new_path" | "match_nested" | "routes" => {
                    let owner = Owner::new();
                    owner.with(|| {
                        let rc: RouteChildren<_> = leptos::children::ToChildren::to_children(children);
                        let (routes, table) = hooks::i18n_routing_with_segments::<L, _, _>(base, rc, SsrMode::default(), || ());
                        match op {
                            "table" => {
                                let mut t = serde_json::Map::new();
                                for (l, routes) in &table {
                                    t.insert(l.as_str().to_string(), json!(routes.iter().map(|r| r.iter().map(seg_json).collect::<Vec<_>>()).collect::<Vec<_>>()));
                                }
                                json!({"table": t})
                            }
                            "routes" => {
                                let r: Vec<Value> = routes.generate_routes().into_iter().map(|g| json!(g.segments.iter().map(seg_json).collect::<Vec<_>>())).collect();
                                json!({"routes": r})
                            }
                            "match_nested" => {
                                let path = req["path"].as_str().unwrap();
                                let (m, remaining) = routes.match_nested(path);
                                match m {
                                    Some((_id, m)) => json!({"matched": true, "prefix": m.as_matched(), "remaining": remaining}),
                                    None => json!({"matched": false, "remaining": remaining}),
                                }
                            }
                            _ => {
                                let table: HashMap<L, Vec<Vec<PathSegment>>> = if req["use_table"].as_bool().unwrap_or(true) { table } else { HashMap::new() };
                                let new = loc(&req["new"]).unwrap();
                                let old = loc(&req["old"]);
                                let p = hooks::get_new_path::<L>(req["path"].as_str().unwrap(), req["search"].as_str().unwrap_or(""), req["hash"].as_str().unwrap_or(""), base, new, old, table);
                                json!({"path": p})
                            }
                        }
                    })
                }
                _ => json!({"error": "unknown op"}),
            }
        }
    };
}
set_impl!(run_s0, s0);
set_impl!(run_s1, s1);
set_impl!(run_s2, s2);

fn main() {
    for line in std::io::stdin().lock().lines() {
        let Ok(line) = line else { break };
        let Ok(req) = serde_json::from_str::<Value>(&line) else { continue };
        let r = std::panic::catch_unwind(|| match req["set"].as_u64().unwrap_or(0) {
            0 => run_s0(&req),
            1 => run_s1(&req),
            _ => run_s2(&req),
        });
        let mut v = match r {
            Ok(v) => v,
            Err(p) => json!({"panic": p.downcast_ref::<String>().cloned().or_else(|| p.downcast_ref::<&str>().map(|s| s.to_string())).unwrap_or_default()}),
        };
        v["id"] = req["id"].clone();
        println!("{}", v);
    }
}
