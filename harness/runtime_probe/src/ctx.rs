//! C15 / C16: contexts and sub-contexts created natively (ssr feature) under an Owner, driven by an
//! operation list; after every operation all live handles are read and dumped.
use std::cell::RefCell;
use std::rc::Rc;
use std::sync::{Arc, Mutex};

use futures::executor::{LocalPool, LocalSpawner};
use futures::task::LocalSpawnExt;
use leptos::prelude::*;
use leptos_i18n::context::{
    init_i18n_context_with_options, init_i18n_subcontext_with_options, CookieOptions, I18nContextOptions, UseLocalesOptions,
};
use leptos_i18n::reexports::icu::locid::LanguageIdentifier;
use leptos_i18n::Locale as LocaleTrait;
use serde_json::{json, Value};

thread_local! {
    static POOL: RefCell<LocalPool> = RefCell::new(LocalPool::new());
    static SPAWNER: LocalSpawner = POOL.with(|p| p.borrow().spawner());
}
struct Exec;
impl any_spawner::CustomExecutor for Exec {
    fn spawn(&self, fut: any_spawner::PinnedFuture<()>) {
        SPAWNER.with(|s| {
            let _ = s.spawn_local(fut);
        });
    }
    fn spawn_local(&self, fut: any_spawner::PinnedLocalFuture<()>) {
        SPAWNER.with(|s| {
            let _ = s.spawn_local(fut);
        });
    }
    fn poll_local(&self) {
        tick();
    }
}
pub fn tick() {
    POOL.with(|p| {
        if let Ok(mut p) = p.try_borrow_mut() {
            p.run_until_stalled();
        }
    });
}
pub fn init_exec() {
    let _ = any_spawner::Executor::init_local_custom_executor(Exec);
}

pub mod s0 {
    leptos_i18n::declare_locales! {
        path: leptos_i18n,
        interpolate_display,
        default: "en",
        locales: ["en", "fr", "fr-CA", "de"],
        en: { hello: "hello@en", grp: { inner: "inner@en" } },
        fr: { hello: "hello@fr", grp: { inner: "inner@fr" } },
        fr_CA: { hello: "hello@fr-CA", grp: { inner: "inner@fr-CA" } },
        de: { hello: "hello@de", grp: { inner: "inner@de" } },
    }
}
pub mod s1 {
    leptos_i18n::declare_locales! {
        path: leptos_i18n,
        interpolate_display,
        default: "fr",
        locales: ["fr", "en"],
        fr: { hello: "hello@fr", grp: { inner: "inner@fr" } },
        en: { hello: "hello@en", grp: { inner: "inner@en" } },
    }
}
pub mod s2 {
    leptos_i18n::declare_locales! {
        path: leptos_i18n,
        interpolate_display,
        default: "en-US",
        locales: ["en-US", "en", "zh-Hant"],
        en_US: { hello: "hello@en-US", grp: { inner: "inner@en-US" } },
        en: { hello: "hello@en", grp: { inner: "inner@en" } },
        zh_Hant: { hello: "hello@zh-Hant", grp: { inner: "inner@zh-Hant" } },
    }
}

fn html<T: IntoView>(v: T) -> String {
    v.into_view().to_html().replace("<!>", "")
}

/// how ICU4X reads one (trimmed) Accept-Language entry: oracle input
fn parsed_entry(q: &str) -> Value {
    match LanguageIdentifier::try_from_bytes(q.trim().as_bytes()) {
        Ok(id) => json!({
            "lang": if id.language.is_empty() { Value::Null } else { json!(id.language.as_str()) },
            "script": id.script.map(|s| s.as_str().to_ascii_lowercase()),
            "region": id.region.map(|s| s.as_str().to_ascii_lowercase()),
            "variants": id.variants.iter().map(|v| v.as_str().to_string()).collect::<Vec<_>>(),
        }),
        Err(_) => Value::Null,
    }
}

macro_rules! set_impl {
    ($name:ident, $m:ident) => {
        pub fn $name(req: &Value) -> Value {
            use $m::i18n::*;
            type L = Locale;
            struct Handle {
                get: Box<dyn Fn() -> L>,
                get_tracked: Box<dyn Fn() -> L>,
                set: Box<dyn Fn(L)>,
                set_untracked: Box<dyn Fn(L)>,
                string: Box<dyn Fn() -> String>,
                // subscribers: a Memo over the tracked read ("memo_locale") or over a tracked accessor ("memo_t")
                memo: Box<dyn Fn(&str) -> Box<dyn Fn() -> String>>,
                owner: Owner,
                base: Option<leptos_i18n::I18nContext<L>>,
                // how many times the reactive block that created this context has run (sub-contexts created inside a block)
                runs: Option<Arc<std::sync::atomic::AtomicUsize>>,
            }
            let loc = |v: &Value| -> Option<L> { v.as_str().and_then(|s| s.parse::<L>().ok()) };
            let set_cookies: Arc<Mutex<Vec<String>>> = Arc::new(Mutex::new(vec![]));
            let make_options = |op: &Value, set_cookies: Arc<Mutex<Vec<String>>>| -> (CookieOptions<L>, UseLocalesOptions) {
                let cookie_header: Option<String> = op["cookie_header"].as_str().map(|s| s.to_string());
                let accept: Option<String> = op["accept_language"].as_str().map(|s| s.to_string());
                let co: CookieOptions<L> = CookieOptions::default()
                    .ssr_cookies_header_getter(move || cookie_header.clone())
                    .ssr_set_cookie(move |c: &_| set_cookies.lock().unwrap().push(format!("{}", c)));
                let lo = UseLocalesOptions::default().ssr_lang_header_getter(move || accept.clone());
                (co, lo)
            };
            init_exec();
            let root_owner = Owner::new();
            let handles: Rc<RefCell<Vec<Handle>>> = Rc::new(RefCell::new(vec![]));
            let accessors: Rc<RefCell<Vec<(usize, String, Box<dyn Fn() -> String>)>>> = Rc::new(RefCell::new(vec![]));
            let mut steps: Vec<Value> = vec![];
            let ctx_handle = |ctx: leptos_i18n::I18nContext<L>, owner: Owner| Handle {
                get: Box::new(move || ctx.get_locale_untracked()),
                get_tracked: Box::new(move || ctx.get_locale()),
                set: Box::new(move |l| ctx.set_locale(l)),
                set_untracked: Box::new(move |l| ctx.set_locale_untracked(l)),
                string: Box::new(move || t_string!(ctx, hello).to_string()),
                memo: Box::new(move |kind: &str| -> Box<dyn Fn() -> String> {
                    // a subscriber over each tracked way of reading the context
                    match kind {
                        "memo_locale" => {
                            let m = Memo::new(move |_| ctx.get_locale());
                            Box::new(move || format!("hello@{}", m.get_untracked().as_str()))
                        }
                        "memo_t_display" => {
                            let m = Memo::new(move |_| t_display!(ctx, hello).to_string());
                            Box::new(move || m.get_untracked())
                        }
                        "memo_t_view" => {
                            let m = Memo::new(move |_| html(t!(ctx, hello)));
                            Box::new(move || m.get_untracked())
                        }
                        "memo_t_plural" => {
                            let m = Memo::new(move |_| { let f = leptos_i18n::t_plural!(ctx, count = || 2, _ => t_string!(ctx, hello).to_string()); f() });
                            Box::new(move || m.get_untracked())
                        }
                        _ => {
                            let m = Memo::new(move |_| t_string!(ctx, hello).to_string());
                            Box::new(move || m.get_untracked())
                        }
                    }
                }),
                owner,
                base: Some(ctx),
                runs: None,
            };
            for op in req["ops"].as_array().unwrap() {
                let kind = op["op"].as_str().unwrap_or("");
                let mut info = json!({});
                match kind {
                    "root" => {
                        let owner = root_owner.child();
                        let (co, lo) = make_options(op, set_cookies.clone());
                        let mut opts = I18nContextOptions::<L>::default().cookie_options(co).ssr_lang_header_getter(lo);
                        if let Some(b) = op["cookie_enabled"].as_bool() {
                            opts = opts.enable_cookie(b);
                        }
                        if let Some(n) = op["cookie_name"].as_str() {
                            opts = opts.cookie_name(n.to_string());
                        }
                        let ctx = owner.with(|| {
                            let ctx = init_i18n_context_with_options(opts);
                            provide_context(ctx);
                            ctx
                        });
                        handles.borrow_mut().push(ctx_handle(ctx, owner));
                    }
                    "resolve" => {
                        let owner = root_owner.child();
                        let (co, lo) = make_options(op, set_cookies.clone());
                        let mut opts = I18nContextOptions::<L>::default().cookie_options(co).ssr_lang_header_getter(lo);
                        if let Some(b) = op["cookie_enabled"].as_bool() {
                            opts = opts.enable_cookie(b);
                        }
                        if let Some(n) = op["cookie_name"].as_str() {
                            opts = opts.cookie_name(n.to_string());
                        }
                        let l = owner.with(|| leptos_i18n::locale::resolve_locale_with_options::<L>(opts));
                        info = json!({"resolved": l.as_str()});
                    }
                    "sub" | "sub_component" => {
                        let parent = op["parent"].as_u64().map(|p| p as usize);
                        let owner = match parent {
                            Some(p) => handles.borrow()[p].owner.child(),
                            None => root_owner.child(),
                        };
                        let (co, lo) = make_options(op, set_cookies.clone());
                        let initial = loc(&op["initial"]);
                        let cookie_name = op["cookie_name"].as_str().map(|s| std::borrow::Cow::Owned(s.to_string()));
                        let ctx = if kind == "sub" {
                            owner.with(|| {
                                let sig = initial.map(|l| Signal::stored(l));
                                let ctx = init_i18n_subcontext_with_options::<L>(sig, cookie_name, Some(co), Some(lo));
                                provide_context(ctx);
                                ctx
                            })
                        } else {
                            let slot: Arc<Mutex<Option<leptos_i18n::I18nContext<L>>>> = Arc::new(Mutex::new(None));
                            let slot2 = slot.clone();
                            let outside: Rc<RefCell<Option<String>>> = Rc::new(RefCell::new(None));
                            let outside2 = outside.clone();
                            let rendered = owner.with(|| {
                                let before = use_context::<leptos_i18n::I18nContext<L>>().map(|c| c.get_locale_untracked().as_str().to_string());
                                let view = match (initial, cookie_name) {
                                    (Some(l), Some(n)) => view! { <I18nSubContextProvider initial_locale=Signal::stored(l) cookie_name=n cookie_options=co ssr_lang_header_getter=lo>{move || { *slot2.lock().unwrap() = Some(use_i18n()); t!(use_i18n(), hello) }}</I18nSubContextProvider> }.into_any(),
                                    (Some(l), None) => view! { <I18nSubContextProvider initial_locale=Signal::stored(l) cookie_options=co ssr_lang_header_getter=lo>{move || { *slot2.lock().unwrap() = Some(use_i18n()); t!(use_i18n(), hello) }}</I18nSubContextProvider> }.into_any(),
                                    (None, Some(n)) => view! { <I18nSubContextProvider cookie_name=n cookie_options=co ssr_lang_header_getter=lo>{move || { *slot2.lock().unwrap() = Some(use_i18n()); t!(use_i18n(), hello) }}</I18nSubContextProvider> }.into_any(),
                                    (None, None) => view! { <I18nSubContextProvider cookie_options=co ssr_lang_header_getter=lo>{move || { *slot2.lock().unwrap() = Some(use_i18n()); t!(use_i18n(), hello) }}</I18nSubContextProvider> }.into_any(),
                                };
                                let h = html(view);
                                // outside the provider the parent context is still the one in scope
                                let after = use_context::<leptos_i18n::I18nContext<L>>().map(|c| c.get_locale_untracked().as_str().to_string());
                                *outside2.borrow_mut() = Some(format!("{:?}->{:?}", before, after));
                                h
                            });
                            info = json!({"rendered": rendered, "outside": outside.borrow().clone()});
                            let ctx = slot.lock().unwrap().expect("children did not run");
                            // later operations that name this handle as parent run "inside the provider's children"
                            owner.with(|| provide_context(ctx));
                            ctx
                        };
                        handles.borrow_mut().push(ctx_handle(ctx, owner));
                    }
                    "sub_block" => {
                        // the documented manual way inside a reactive block: the block must not become a subscriber of the parent's locale
                        let p = op["parent"].as_u64().unwrap() as usize;
                        let owner = handles.borrow()[p].owner.child();
                        let initial = loc(&op["initial"]);
                        let slot: Arc<Mutex<Option<leptos_i18n::I18nContext<L>>>> = Arc::new(Mutex::new(None));
                        let runs = Arc::new(std::sync::atomic::AtomicUsize::new(0));
                        let (slot2, runs2, opv, sc) = (slot.clone(), runs.clone(), op.clone(), set_cookies.clone());
                        let memo = owner.with(|| {
                            Memo::new(move |_| {
                                let n = runs2.fetch_add(1, std::sync::atomic::Ordering::SeqCst) + 1;
                                let (co, lo) = make_options(&opv, sc.clone());
                                let sig = initial.map(|l| Signal::stored(l));
                                let ctx = init_i18n_subcontext_with_options::<L>(sig, None, Some(co), Some(lo));
                                *slot2.lock().unwrap() = Some(ctx);
                                n
                            })
                        });
                        memo.get_untracked();
                        let cur = move || {
                            memo.get_untracked();
                            slot.lock().unwrap().expect("block did not run")
                        };
                        let (c1, c2, c3, c4, c5, c6) = (cur.clone(), cur.clone(), cur.clone(), cur.clone(), cur.clone(), cur.clone());
                        handles.borrow_mut().push(Handle {
                            get: Box::new(move || c1().get_locale_untracked()),
                            get_tracked: Box::new(move || c2().get_locale()),
                            set: Box::new(move |l| c3().set_locale(l)),
                            set_untracked: Box::new(move |l| c4().set_locale_untracked(l)),
                            string: Box::new(move || { let ctx = c5(); t_string!(ctx, hello).to_string() }),
                            memo: Box::new(move |kind: &str| -> Box<dyn Fn() -> String> {
                                let ctx = c6();
                                if kind == "memo_locale" {
                                    let m = Memo::new(move |_| ctx.get_locale());
                                    Box::new(move || format!("hello@{}", m.get_untracked().as_str()))
                                } else {
                                    let m = Memo::new(move |_| t_string!(ctx, hello).to_string());
                                    Box::new(move || m.get_untracked())
                                }
                            }),
                            owner,
                            base: None,
                            runs: Some(runs),
                        });
                    }
                    "scope" => {
                        let i = op["ctx"].as_u64().unwrap() as usize;
                        let (base, owner) = {
                            let hs = handles.borrow();
                            (hs[i].base.expect("scope of a scoped handle"), hs[i].owner.clone())
                        };
                        let sc = scope_i18n!(base, grp);
                        handles.borrow_mut().push(Handle {
                            get: Box::new(move || sc.get_locale_untracked()),
                            get_tracked: Box::new(move || sc.get_locale()),
                            set: Box::new(move |l| sc.set_locale(l)),
                            set_untracked: Box::new(move |l| sc.set_locale_untracked(l)),
                            string: Box::new(move || t_string!(sc, inner).to_string().replace("inner@", "hello@")),
                            memo: Box::new(move |kind: &str| -> Box<dyn Fn() -> String> {
                                if kind == "memo_locale" {
                                    let m = Memo::new(move |_| sc.get_locale());
                                    Box::new(move || format!("hello@{}", m.get_untracked().as_str()))
                                } else {
                                    let m = Memo::new(move |_| t_string!(sc, inner).to_string().replace("inner@", "hello@"));
                                    Box::new(move || m.get_untracked())
                                }
                            }),
                            owner,
                            base: None,
                            runs: None,
                        });
                    }
                    "set" | "set_untracked" => {
                        let i = op["ctx"].as_u64().unwrap() as usize;
                        let l = loc(&op["locale"]).unwrap();
                        let hs = handles.borrow();
                        if kind == "set" {
                            (hs[i].set)(l)
                        } else {
                            (hs[i].set_untracked)(l)
                        }
                    }
                    "accessor" => {
                        let i = op["ctx"].as_u64().unwrap() as usize;
                        let flavour = op["flavour"].as_str().unwrap_or("t").to_string();
                        let hs = handles.borrow();
                        let f: Box<dyn Fn() -> String> = match (hs[i].base, flavour.as_str()) {
                            (_, f) if f.starts_with("memo_") => hs[i].owner.with(|| (hs[i].memo)(flavour.as_str())),
                            (Some(ctx), "t") => {
                                let v = t!(ctx, hello);
                                Box::new(move || html(v.clone()))
                            }
                            (Some(ctx), "tu") => {
                                let v = tu!(ctx, hello);
                                Box::new(move || html(v.clone()))
                            }
                            (Some(ctx), "t_display") => Box::new(move || t_display!(ctx, hello).to_string()),
                            // a formatting view: must format for the locale being rendered, not the one it was created under
                            (Some(ctx), "t_format") => {
                                let v = leptos_i18n::formatting::t_format!(ctx, move || 1234567.5f64, formatter: number);
                                Box::new(move || format!("fmt:{}", html(v.clone())))
                            }
                            (Some(ctx), "tu_format") => {
                                let v = leptos_i18n::formatting::tu_format!(ctx, move || 1234567.5f64, formatter: number);
                                Box::new(move || format!("fmt:{}", html(v.clone())))
                            }
                            (Some(ctx), _) => Box::new(move || tu_string!(ctx, hello).to_string()),
                            (None, _) => {
                                let g = hs[i].owner.clone();
                                let _ = g;
                                Box::new(|| String::from("<scoped accessor unsupported>"))
                            }
                        };
                        accessors.borrow_mut().push((i, flavour, f));
                    }
                    _ => {}
                }
                // "notick": the next operation happens in the same executor tick (before pending effects are flushed)
                if !op["notick"].as_bool().unwrap_or(false) {
                    tick();
                }
                let reads: Vec<Value> = handles
                    .borrow()
                    .iter()
                    .map(|h| json!({"untracked": (h.get)().as_str(), "tracked": (h.get_tracked)().as_str(), "string": (h.string)(),
                                     "runs": h.runs.as_ref().map(|r| r.load(std::sync::atomic::Ordering::SeqCst))}))
                    .collect();
                let accs: Vec<Value> = accessors.borrow().iter().map(|(i, fl, f)| json!({"ctx": i, "flavour": fl, "text": f()})).collect();
                let cookies: Vec<String> = std::mem::take(&mut *set_cookies.lock().unwrap());
                steps.push(json!({"info": info, "reads": reads, "accessors": accs, "set_cookies": cookies}));
            }
            // what the header getter yields, as leptos_use splits it, with ICU's reading of each entry
            let mut header_info = Value::Null;
            if let Some(h) = req["probe_header"].as_str() {
                let entries: Vec<String> = h.split(',').map(|e| e.split_once(';').map(|x| x.0).unwrap_or(e).to_string()).collect();
                let parsed: Vec<Value> = entries.iter().map(|e| parsed_entry(e)).collect();
                let own = L::find_locale(&entries);
                header_info = json!({"entries": entries, "parsed": parsed, "find_locale": own.as_str()});
            }
            let fmt_table: serde_json::Map<String, Value> = L::get_all()
                .iter()
                .map(|l| (l.as_str().to_string(), json!(leptos_i18n::formatting::td_format_string!(*l, 1234567.5f64, formatter: number))))
                .collect();
            drop(handles);
            drop(accessors);
            tick();
            drop(root_owner);
            json!({"steps": steps, "header": header_info, "fmt_table": fmt_table})
        }
    };
}
set_impl!(run_s0, s0);
set_impl!(run_s1, s1);
set_impl!(run_s2, s2);

pub fn serve() {
    use std::io::BufRead;
    std::panic::set_hook(Box::new(|_| {}));
    for line in std::io::stdin().lock().lines() {
        let Ok(line) = line else { break };
        let Ok(req) = serde_json::from_str::<Value>(&line) else { continue };
        let r = std::panic::catch_unwind(std::panic::AssertUnwindSafe(|| match req["set"].as_u64().unwrap_or(0) {
            0 => run_s0(&req),
            1 => run_s1(&req),
            _ => run_s2(&req),
        }));
        let mut v = match r {
            Ok(v) => v,
            Err(p) => json!({"panic": p.downcast_ref::<String>().cloned().or_else(|| p.downcast_ref::<&str>().map(|s| s.to_string())).unwrap_or_default()}),
        };
        v["id"] = req["id"].clone();
        println!("{}", v);
    }
}
