//! C18 schedules: threads racing on the first uses of the process-global formatter cache.
use std::sync::atomic::{AtomicUsize, Ordering};
use std::sync::{Arc, Barrier, Mutex};

use leptos_i18n::reexports::fixed_decimal::FixedDecimal;
use leptos_i18n::reexports::icu::decimal::{options::{FixedDecimalFormatterOptions, GroupingStrategy}, FixedDecimalFormatter};
use leptos_i18n::reexports::icu::list::{ListFormatter, ListLength};
use leptos_i18n::reexports::icu::plurals::{PluralRuleType, PluralRules};
use leptos_i18n::Locale as _;
use serde_json::{json, Value};

use crate::ctx::s0::i18n::Locale;

fn locales() -> [Locale; 4] {
    [Locale::en, Locale::fr, Locale::fr_CA, Locale::de]
}

/// one "key" of the cache: (kind, locale index, option index)
fn call(kind: usize, li: usize, oi: usize) -> String {
    let l = locales()[li];
    match kind {
        0 => {
            let g = [GroupingStrategy::Auto, GroupingStrategy::Never, GroupingStrategy::Always, GroupingStrategy::Min2][oi % 4];
            leptos_i18n::__private::format_number_to_display(l, 1234567i64, g).to_string()
        }
        1 => {
            let (ty, len) = [
                (leptos_i18n::__private::ListType::And, ListLength::Wide),
                (leptos_i18n::__private::ListType::Or, ListLength::Short),
                (leptos_i18n::__private::ListType::Unit, ListLength::Narrow),
                (leptos_i18n::__private::ListType::And, ListLength::Narrow),
            ][oi % 4];
            leptos_i18n::__private::format_list_to_display(l, ["A", "B", "C"], ty, len).to_string()
        }
        _ => {
            let rt = [PluralRuleType::Cardinal, PluralRuleType::Ordinal][oi % 2];
            format!("{:?}", leptos_i18n::__private::get_plural_rules(l, rt).category_for(2u64 + oi as u64))
        }
    }
}

fn expected(kind: usize, li: usize, oi: usize) -> String {
    let l = locales()[li].as_icu_locale();
    match kind {
        0 => {
            let g = [GroupingStrategy::Auto, GroupingStrategy::Never, GroupingStrategy::Always, GroupingStrategy::Min2][oi % 4];
            let mut o = FixedDecimalFormatterOptions::default();
            o.grouping_strategy = g;
            FixedDecimalFormatter::try_new(&l.into(), o).unwrap().format_to_string(&FixedDecimal::from(1234567i64))
        }
        1 => {
            let dl = l.into();
            let f = match oi % 4 {
                0 => ListFormatter::try_new_and_with_length(&dl, ListLength::Wide),
                1 => ListFormatter::try_new_or_with_length(&dl, ListLength::Short),
                2 => ListFormatter::try_new_unit_with_length(&dl, ListLength::Narrow),
                _ => ListFormatter::try_new_and_with_length(&dl, ListLength::Narrow),
            }
            .unwrap();
            f.format_to_string(["A", "B", "C"].iter())
        }
        _ => {
            let rt = [PluralRuleType::Cardinal, PluralRuleType::Ordinal][oi % 2];
            format!("{:?}", PluralRules::try_new(&l.into(), rt).unwrap().category_for(2u64 + oi as u64))
        }
    }
}

struct Rng(u64);
impl Rng {
    fn next(&mut self) -> u64 {
        self.0 ^= self.0 << 13;
        self.0 ^= self.0 >> 7;
        self.0 ^= self.0 << 17;
        self.0
    }
}

pub fn run(params: &Value) {
    let seed = params["seed"].as_u64().unwrap_or(1) | 1;
    let threads = params["threads"].as_u64().unwrap_or(16) as usize;
    let mut rng = Rng(seed.wrapping_mul(0x9E3779B97F4A7C15) | 1);
    // 3..5 cache keys shared by all threads
    let nkeys = 3 + (rng.next() % 3) as usize;
    let keys: Vec<(usize, usize, usize)> = (0..nkeys).map(|_| ((rng.next() % 3) as usize, (rng.next() % 4) as usize, (rng.next() % 4) as usize)).collect();
    let barrier = Arc::new(Barrier::new(threads));
    let seq = Arc::new(AtomicUsize::new(0));
    let log: Arc<Mutex<Vec<(usize, usize, usize, usize, String)>>> = Arc::new(Mutex::new(vec![]));
    let mut hs = vec![];
    for t in 0..threads {
        let keys = keys.clone();
        let barrier = barrier.clone();
        let seq = seq.clone();
        let log = log.clone();
        let mut r = Rng(seed.wrapping_add(t as u64 * 7919).wrapping_mul(0x2545F4914F6CDD1D) | 1);
        hs.push(std::thread::spawn(move || {
            // per-thread random order
            let mut order: Vec<usize> = (0..keys.len()).collect();
            for i in (1..order.len()).rev() {
                order.swap(i, (r.next() % (i as u64 + 1)) as usize);
            }
            barrier.wait();
            let mut local = vec![];
            for rep in 0..3 {
                for &k in &order {
                    match r.next() % 4 {
                        0 => std::thread::yield_now(),
                        1 => std::thread::sleep(std::time::Duration::from_micros(r.next() % 200)),
                        _ => {}
                    }
                    let call_seq = seq.fetch_add(1, Ordering::SeqCst);
                    let (kind, li, oi) = keys[k];
                    let out = call(kind, li, oi);
                    let ret_seq = seq.fetch_add(1, Ordering::SeqCst);
                    local.push((t, k, call_seq, ret_seq + rep * 0, out));
                }
            }
            log.lock().unwrap().extend(local);
        }));
    }
    let mut died = 0;
    for h in hs {
        if h.join().is_err() {
            died += 1;
        }
    }
    let log = log.lock().unwrap();
    let mut mismatches = vec![];
    let exp: Vec<String> = keys.iter().map(|&(k, l, o)| expected(k, l, o)).collect();
    // first thread to *return* each key
    let mut first: Vec<(usize, usize)> = vec![(usize::MAX, 0); keys.len()];
    for (t, k, _c, r, out) in log.iter() {
        if *r < first[*k].0 {
            first[*k] = (*r, *t);
        }
        if out != &exp[*k] && mismatches.len() < 10 {
            mismatches.push(json!({"thread": t, "key": keys[*k], "got": out, "expected": exp[*k]}));
        }
    }
    if died > 0 {
        mismatches.push(json!({"threads_panicked": died}));
    }
    println!("{}", json!({"calls": log.len(), "keys": keys, "first_arrivals": first.iter().map(|f| f.1).collect::<Vec<_>>(), "mismatches": mismatches}));
}
