//! runtime_probe: the run-time crate `leptos_i18n` (ssr + all formatters) under native workloads.
#![allow(clippy::all)]
mod ctx;
mod fmtstress;
mod negotiate;
mod required;

use serde_json::Value;

fn main() {
    let args: Vec<String> = std::env::args().collect();
    match args.get(1).map(String::as_str) {
        Some("negotiate") => negotiate::serve(),
        Some("ctx") => ctx::serve(),
        Some("required") => required::run(),
        Some("fmt-stress") => {
            let p: Value = serde_json::from_str(args.get(2).map(String::as_str).unwrap_or("{}")).unwrap();
            fmtstress::run(&p)
        }
        Some("negotiate-sweep") => {
            let p: Value = serde_json::from_str(args.get(2).map(String::as_str).unwrap_or("{}")).unwrap();
            negotiate::sweep(&p)
        }
        other => {
            eprintln!("unknown subcommand {:?}", other);
            std::process::exit(64);
        }
    }
}
