//! C12: `Locale::find_locale` / `find_matchs` on a hand-written `Locale` whose supported set is
//! configurable at run time (so one binary sweeps every supported set), plus macro-generated enums.
use std::cell::Cell;
use std::str::FromStr;
use std::sync::OnceLock;

use leptos_i18n::reexports::icu::locid::{LanguageIdentifier, Locale as IcuLocale};
use leptos_i18n::{Direction, Locale, LocaleKeys};
use serde_json::{json, Value};

pub const UNIVERSE: &[&str] = &[
    "en", "en-US", "en-GB", "fr", "fr-FR", "fr-CA", "zh", "zh-Hans", "zh-Hant", "zh-Hant-TW", "de", "de-DE-1996",
];
pub const JUNK: &[&str] = &["und", "*", "xx-invalid-"];
/// identifiers that only ever appear in request lists: more specific than a supported entry through variants alone,
/// through a script alone, or through script and region
pub const REQUEST_ONLY: &[&str] = &["de-1996", "fr-Latn", "zh-Hant-HK"];

fn icu_table() -> &'static Vec<IcuLocale> {
    static T: OnceLock<Vec<IcuLocale>> = OnceLock::new();
    T.get_or_init(|| UNIVERSE.iter().map(|s| s.parse().unwrap()).collect())
}

thread_local! {
    static CURRENT: Cell<&'static [DynLocale]> = const { Cell::new(&[]) };
}

/// index into UNIVERSE
#[derive(Clone, Copy, Debug, PartialEq, Eq, Hash)]
pub struct DynLocale(pub u8);

impl Default for DynLocale {
    fn default() -> Self {
        CURRENT.with(|c| c.get()[0])
    }
}
impl FromStr for DynLocale {
    type Err = ();
    fn from_str(s: &str) -> Result<Self, ()> {
        UNIVERSE.iter().position(|u| *u == s.trim()).map(|i| DynLocale(i as u8)).ok_or(())
    }
}
impl AsRef<LanguageIdentifier> for DynLocale {
    fn as_ref(&self) -> &LanguageIdentifier {
        &icu_table()[self.0 as usize].id
    }
}
impl AsRef<IcuLocale> for DynLocale {
    fn as_ref(&self) -> &IcuLocale {
        &icu_table()[self.0 as usize]
    }
}
impl AsRef<str> for DynLocale {
    fn as_ref(&self) -> &str {
        UNIVERSE[self.0 as usize]
    }
}
impl AsRef<DynLocale> for DynLocale {
    fn as_ref(&self) -> &DynLocale {
        self
    }
}
impl std::fmt::Display for DynLocale {
    fn fmt(&self, f: &mut std::fmt::Formatter<'_>) -> std::fmt::Result {
        f.write_str(UNIVERSE[self.0 as usize])
    }
}
impl serde::Serialize for DynLocale {
    fn serialize<S: serde::Serializer>(&self, s: S) -> Result<S::Ok, S::Error> {
        s.serialize_str(UNIVERSE[self.0 as usize])
    }
}
impl<'de> serde::Deserialize<'de> for DynLocale {
    fn deserialize<D: serde::Deserializer<'de>>(d: D) -> Result<Self, D::Error> {
        let s = String::deserialize(d)?;
        Ok(DynLocale::from_str(&s).unwrap_or_default())
    }
}
#[derive(Clone, Copy)]
pub struct DynKeys(#[allow(dead_code)] DynLocale);
impl LocaleKeys for DynKeys {
    type Locale = DynLocale;
    fn from_locale(l: DynLocale) -> Self {
        DynKeys(l)
    }
}
impl Locale for DynLocale {
    type Keys = DynKeys;
    type TranslationUnitId = ();
    fn as_str(self) -> &'static str {
        UNIVERSE[self.0 as usize]
    }
    fn as_icu_locale(self) -> &'static IcuLocale {
        &icu_table()[self.0 as usize]
    }
    fn direction(self) -> Direction {
        Direction::Auto
    }
    fn get_all() -> &'static [DynLocale] {
        CURRENT.with(|c| c.get())
    }
    fn to_base_locale(self) -> Self {
        self
    }
    fn from_base_locale(l: Self) -> Self {
        l
    }
}

// ---------------------------------------------------------------------------------------------
// reference oracle (independent of the implementation under test): subtag-wise matching
// ---------------------------------------------------------------------------------------------
#[derive(Clone, PartialEq, Eq, Debug)]
pub struct Parts {
    pub lang: Option<String>,
    pub script: Option<String>,
    pub region: Option<String>,
    pub variants: Vec<String>,
}

/// Minimal BCP-47 language identifier splitter for the closed universe + junk (oracle side).
pub fn parts_of(s: &str) -> Option<Parts> {
    let s = s.trim();
    if s.is_empty() {
        return None;
    }
    let mut it = s.split(['-', '_']);
    let lang = it.next()?;
    if !(lang.len() >= 2 && lang.len() <= 3 || (5..=8).contains(&lang.len())) || !lang.chars().all(|c| c.is_ascii_alphabetic()) {
        return None;
    }
    let mut p = Parts { lang: if lang.eq_ignore_ascii_case("und") { None } else { Some(lang.to_ascii_lowercase()) }, script: None, region: None, variants: vec![] };
    let mut stage = 0;
    for sub in it {
        if sub.is_empty() {
            return None;
        }
        let alpha = sub.chars().all(|c| c.is_ascii_alphabetic());
        let digit = sub.chars().all(|c| c.is_ascii_digit());
        let alnum = sub.chars().all(|c| c.is_ascii_alphanumeric());
        if stage == 0 && sub.len() == 4 && alpha {
            p.script = Some(sub.to_ascii_lowercase());
            stage = 1;
        } else if stage <= 1 && ((sub.len() == 2 && alpha) || (sub.len() == 3 && digit)) {
            p.region = Some(sub.to_ascii_lowercase());
            stage = 2;
        } else if alnum && ((5..=8).contains(&sub.len()) || (sub.len() == 4 && sub.chars().next().unwrap().is_ascii_digit())) {
            p.variants.push(sub.to_ascii_lowercase());
            stage = 3;
        } else {
            return None;
        }
    }
    p.variants.sort();
    Some(p)
}

/// `s` (supported) matches `r` (requested) iff every subtag present in `s` equals `r`'s.
pub fn matches(s: &Parts, r: &Parts) -> bool {
    (s.lang.is_none() || s.lang == r.lang)
        && (s.script.is_none() || s.script == r.script)
        && (s.region.is_none() || s.region == r.region)
        && (s.variants.is_empty() || s.variants == r.variants)
}

/// Returns None when the result is acceptable, or the reason it is not.
pub fn judge(supported: &[&str], default: &str, requests: &[&str], result: &str) -> Option<String> {
    if !supported.contains(&result) {
        return Some(format!("result {result} is not a supported locale"));
    }
    let sup: Vec<(&str, Parts)> = supported.iter().map(|s| (*s, parts_of(s).unwrap())).collect();
    for r in requests {
        let Some(rp) = parts_of(r) else { continue };
        if rp.lang.is_none() && rp.script.is_none() && rp.region.is_none() && rp.variants.is_empty() {
            // `und`: only an identical supported entry could match; the universe has none
            continue;
        }
        let cands: Vec<&(&str, Parts)> = sup.iter().filter(|(_, sp)| matches(sp, &rp)).collect();
        if cands.is_empty() {
            continue;
        }
        // first request with a match decides
        if let Some((exact, _)) = cands.iter().find(|(_, sp)| *sp == rp) {
            if result != *exact {
                return Some(format!("exact match {exact} for request {r} passed over for {result}"));
            }
            return None;
        }
        if !cands.iter().any(|(n, _)| *n == result) {
            return Some(format!("request {r} is matched by {:?} but {result} was chosen", cands.iter().map(|c| c.0).collect::<Vec<_>>()));
        }
        return None;
    }
    if result != default {
        return Some(format!("no request matches, expected default {default}, got {result}"));
    }
    None
}

fn set_current(names: &[&str]) -> Vec<DynLocale> {
    let v: Vec<DynLocale> = names.iter().map(|n| DynLocale::from_str(n).unwrap()).collect();
    let leaked: &'static [DynLocale] = Box::leak(v.clone().into_boxed_slice());
    CURRENT.with(|c| c.set(leaked));
    v
}

/// stdin lines: {"id":.., "supported":[default first], "requests":[..]} -> {"id":.., "result":.., "matchs":[..]}
pub fn serve() {
    use std::io::BufRead;
    for line in std::io::stdin().lock().lines() {
        let Ok(line) = line else { break };
        let Ok(req) = serde_json::from_str::<Value>(&line) else { continue };
        let sup: Vec<&str> = req["supported"].as_array().unwrap().iter().map(|v| v.as_str().unwrap()).collect();
        set_current(&sup);
        let reqs: Vec<&str> = req["requests"].as_array().unwrap().iter().map(|v| v.as_str().unwrap()).collect();
        let r = DynLocale::find_locale(&reqs);
        let matchs: Vec<Vec<&str>> = reqs
            .iter()
            .map(|q| match q.parse::<LanguageIdentifier>() {
                Ok(id) => DynLocale::find_matchs(id).into_iter().map(|l| l.as_str()).collect(),
                Err(_) => vec![],
            })
            .collect();
        // how ICU4X itself reads each request (trusted base for "usable entry" in the Python oracle)
        let parsed: Vec<Value> = reqs
            .iter()
            .map(|q| match LanguageIdentifier::try_from_bytes(q.trim().as_bytes()) {
                Ok(id) => json!({
                    "lang": if id.language.is_empty() { Value::Null } else { json!(id.language.as_str()) },
                    "script": id.script.map(|s| s.as_str().to_ascii_lowercase()),
                    "region": id.region.map(|s| s.as_str().to_ascii_lowercase()),
                    "variants": id.variants.iter().map(|v| v.as_str().to_string()).collect::<Vec<_>>(),
                }),
                Err(_) => Value::Null,
            })
            .collect();
        println!("{}", json!({"id": req["id"], "result": r.as_str(), "matchs": matchs, "parsed": parsed}));
    }
}

/// Exhaustive / sampled sweep with the Rust-side oracle. args: {"set_stride": n, "set_offset": k, "maxlen": 3, "len3_stride": m, "threads": t}
pub fn sweep(params: &Value) {
    let stride = params["set_stride"].as_u64().unwrap_or(1) as usize;
    let offset = params["set_offset"].as_u64().unwrap_or(0) as usize;
    let maxlen = params["maxlen"].as_u64().unwrap_or(3) as usize;
    let len3_stride = params["len3_stride"].as_u64().unwrap_or(1) as usize;
    let threads = params["threads"].as_u64().unwrap_or(16) as usize;
    let tokens: Vec<&'static str> = UNIVERSE.iter().chain(JUNK.iter()).chain(REQUEST_ONLY.iter()).copied().collect();
    let nsets: usize = (1usize << UNIVERSE.len()) - 1;
    let sets: Vec<usize> = (1..=nsets).filter(|m| (m + offset) % stride == 0).collect();
    let chunks: Vec<Vec<usize>> = (0..threads).map(|t| sets.iter().copied().skip(t).step_by(threads).collect()).collect();
    let mut handles = vec![];
    for chunk in chunks {
        let tokens = tokens.clone();
        handles.push(std::thread::spawn(move || {
            let mut evals = 0u64;
            let mut nontrivial = 0u64;
            let mut viol: Vec<Value> = vec![];
            let mut samples: Vec<Value> = vec![];
            let mut configs = 0u64;
            for mask in chunk {
                let members: Vec<&'static str> = (0..UNIVERSE.len()).filter(|i| mask & (1 << i) != 0).map(|i| UNIVERSE[i]).collect();
                for d in 0..members.len() {
                    let mut sup = members.clone();
                    sup.swap(0, d);
                    set_current(&sup);
                    configs += 1;
                    let mut reqs: Vec<&'static str> = Vec::with_capacity(3);
                    let mut k = 0usize;
                    for len in 1..=maxlen {
                        let total = tokens.len().pow(len as u32);
                        for code in 0..total {
                            if len == 3 && (code + mask) % len3_stride != 0 {
                                continue;
                            }
                            reqs.clear();
                            let mut c = code;
                            for _ in 0..len {
                                reqs.push(tokens[c % tokens.len()]);
                                c /= tokens.len();
                            }
                            let r = DynLocale::find_locale(&reqs);
                            evals += 1;
                            // non-trivial: the first usable request is matched but a later request has a more specific match
                            let verdict = judge(&sup, sup[0], &reqs, r.as_str());
                            if reqs.len() >= 2 {
                                nontrivial += 1;
                            }
                            if let Some(why) = verdict {
                                if viol.len() < 20 {
                                    viol.push(json!({"supported": sup, "requests": reqs, "result": r.as_str(), "why": why}));
                                } else {
                                    viol.push(Value::Null);
                                }
                            }
                            k += 1;
                            if k % 50021 == 0 && samples.len() < 40 {
                                samples.push(json!({"supported": sup, "requests": reqs, "result": r.as_str()}));
                            }
                        }
                    }
                }
            }
            (evals, nontrivial, viol, samples, configs)
        }));
    }
    let mut evals = 0;
    let mut nontrivial = 0;
    let mut configs = 0;
    let mut viol = vec![];
    let mut samples = vec![];
    let mut nviol = 0u64;
    for h in handles {
        let (e, n, v, s, c) = h.join().unwrap();
        evals += e;
        nontrivial += n;
        configs += c;
        nviol += v.len() as u64;
        viol.extend(v.into_iter().filter(|x| !x.is_null()));
        samples.extend(s);
    }
    println!("{}", json!({"evaluations": evals, "multi_request_lists": nontrivial, "configs": configs, "violations": nviol, "violation_samples": viol, "samples": samples}));
}
