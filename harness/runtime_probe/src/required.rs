//! `runtime_probe required`: for each data family, the data keys ICU4X itself demands from a provider to build the
//! formatter the library builds for that family. The list is not copied from the build helper: each function below only
//! compiles because its `where` clause names every marker of the corresponding `try_new_unstable` constructor (drop one
//! and rustc rejects the call), and the printed key is the marker's own `KEY`.
use icu_provider::{DataProvider, KeyedDataMarker};
use leptos_i18n::reexports::icu::{datetime, decimal, list, plurals};
use serde_json::json;

use decimal::provider::DecimalSymbolsV1Marker;
use icu_experimental::dimension::provider::currency::CurrencyEssentialsV1Marker;
use list::provider::{AndListV1Marker, OrListV1Marker, UnitListV1Marker};
use plurals::provider::{CardinalV1Marker, OrdinalV1Marker};
use datetime::provider::calendar::{TimeLengthsV1Marker, TimeSymbolsV1Marker};

fn key<M: KeyedDataMarker>() -> String {
    M::KEY.path().get().to_string()
}

#[allow(dead_code)]
fn number<P>(p: &P)
where
    P: DataProvider<DecimalSymbolsV1Marker>,
{
    let _ = decimal::FixedDecimalFormatter::try_new_unstable(p, &Default::default(), Default::default());
}

#[allow(dead_code)]
fn currency<P>(p: &P)
where
    P: DataProvider<CurrencyEssentialsV1Marker> + DataProvider<DecimalSymbolsV1Marker>,
{
    let _ = icu_experimental::dimension::currency::formatter::CurrencyFormatter::try_new_unstable(p, &Default::default(), Default::default());
}

#[allow(dead_code)]
fn plural<P>(p: &P)
where
    P: DataProvider<CardinalV1Marker> + DataProvider<OrdinalV1Marker>,
{
    let _ = plurals::PluralRules::try_new_cardinal_unstable(p, &Default::default());
    let _ = plurals::PluralRules::try_new_ordinal_unstable(p, &Default::default());
}

#[allow(dead_code)]
fn lists<P>(p: &P)
where
    P: DataProvider<AndListV1Marker> + DataProvider<OrListV1Marker> + DataProvider<UnitListV1Marker>,
{
    let _ = list::ListFormatter::try_new_and_with_length_unstable(p, &Default::default(), list::ListLength::Wide);
    let _ = list::ListFormatter::try_new_or_with_length_unstable(p, &Default::default(), list::ListLength::Wide);
    let _ = list::ListFormatter::try_new_unit_with_length_unstable(p, &Default::default(), list::ListLength::Wide);
}

#[allow(dead_code)]
fn time<P>(p: &P)
where
    P: DataProvider<TimeLengthsV1Marker> + DataProvider<TimeSymbolsV1Marker> + DataProvider<DecimalSymbolsV1Marker>,
{
    let _ = datetime::TimeFormatter::try_new_with_length_unstable(p, &Default::default(), datetime::options::length::Time::Short);
}

pub fn run() {
    println!(
        "{}",
        json!({
            "nums": [key::<DecimalSymbolsV1Marker>()],
            "currency": [key::<CurrencyEssentialsV1Marker>(), key::<DecimalSymbolsV1Marker>()],
            "plurals": [key::<CardinalV1Marker>(), key::<OrdinalV1Marker>()],
            "list": [key::<AndListV1Marker>(), key::<OrListV1Marker>(), key::<UnitListV1Marker>()],
            "datetime": [key::<TimeLengthsV1Marker>(), key::<TimeSymbolsV1Marker>(), key::<DecimalSymbolsV1Marker>()],
        })
    );
}
