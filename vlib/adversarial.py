"""Adversarial workloads for C09: grammar-aware and blind mutations of valid projects."""
import copy
import json
import random
import re

from . import gen

NASTY = [
    "</b >", "< b >x</ b >", "<b>x</b >", "<b >x</b>", "< b>x< /b>", "<b>é</b é>", "<b>x</ b >é", "<b>x</b  >y",
    "{{", "}}", "{{ }}", "{{,}}", "{{ x, }}", "{{ x, number( }}", "{{ x, number) }}", "{{ x, number(a:b:c;;) }}", "{{ x, nope }}",
    "{{ x, currency(currency_code: éé) }}", "{{ x, currency(currency_code: ABCD) }}", "{{ é }}", "{{  x  }}", "{{ 1x }}", "{{ fn }}", "{{ x y }}",
    "{{ x }", "{ x }}", "{{{ x }}}", "{{ {{ x }} }}", "}}{{",
    "$t(", "$t()", "$t(,)", "$t(a", "$t(a,", "$t(a, {", "$t(a, {}", "$t(a, {})", "$t(a, {\"count\": })", "$t(é)", "$t( a . b )", "$t(a:b:c)",
    "$t(:a)", "$t(a.)", "$t(.a)", "$t(a, {\"x\": \"{\"})", "$t(a, {\"x\": \"}\"})", "$t(a, })", "$t(a, {\"x\": 1}é)", "$t(a, {} )", "$t(a, [1])",
    "$t(a, {\"count\": \"{{ x }} {{ y }}\"})", "$t(a, {\"count\": true})", "$t(a, {\"count\": null})", "$t(a, {\"count\": 1e999})",
    "$t(a, {\"count\": -1})", "$t(a, {\"count\": 99999999999999999999})", "$t(a, {\"count\": 0.5})", "$t(a, {\"count\": 5})", "$t(a, {\"count\": \"5\"})",
    "<>x</>", "< >x</ >", "<é>x</é>", "<b>x</b", "<b>x<b>y</b>", "<b", ">", "<<b>>x<</b>>", "</b>x<b>", "<b/>", "<b>x</B>", "<1>x</1>", "<fn>x</fn>",
    "$t(a, {\"x\": \"ééé\"})", "$t(a, {\"x\": \"€€\"}) tail", "$t(a, {\"é\": \"日本語\"})é", "$t(a, { \"x\" : \"\U0001F600\" } )", "$t(a, {\"x\": \"<b>é</b>{{ é }}\"})",
    "$t(aé, {\"x\": 1})", "$t(é.é)", "$t(é:é)", "{{ x, number(grouping_strategy: é) }}", "{{ x, datetime(é: é; é) }}", "<bé>x</bé>", "é<b>é</b>é{{ x }}é$t(a)é",
    "<b>$t(a)</b>", "$t(a)<b>$t(a)</b>", "<b>{{ x }}</b>{{ x, number }}", "\u0000", "퟿", "\U0010ffff", "á́́",
]

RANGE_NASTY = [
    ["f32", ["a", "NaN"], ["b", "_"]], ["f64", ["a", "inf"], ["b", "_"]], ["f64", ["a", "-inf..inf"], ["b", "_"]], ["f32", ["a", "1e999"], ["b", "_"]],
    ["f64", ["a", "NaN..NaN"], ["b", "_"]], ["f32", ["a", "..=NaN"], ["b", "_"]], ["f64", ["a", "1e308..1e309"], ["b", "_"]], ["f32", ["a", 1e39], ["b", "_"]],
    ["u8", ["a", 0], ["b", 1]], [["a", 0], ["b", 1]], ["i8", ["a", "-128..=127"]], ["u64", ["a", "18446744073709551615"], ["b", "_"]],
    ["u64", ["a", "18446744073709551616"], ["b", "_"]], ["i64", ["a", "-9223372036854775809"], ["b", "_"]], ["u8", ["a", "5..3"], ["b", "_"]],
    ["u8", ["a", "..0"], ["b", "_"]], ["u8", ["a", "0..0"], ["b", "_"]], ["u8", ["a", "|"], ["b", "_"]], ["u8", ["a", "1||2"], ["b", "_"]], ["u8", ["a", "_|1"], ["b", "_"]],
    ["u8", ["a", ".."], ["b", "_"]], ["u8", ["a", "..="], ["b", "_"]], ["u8", ["a", "..= 1"], ["b", "_"]], ["u8", ["a", "1....2"], ["b", "_"]], ["u8", ["a", "é"], ["b", "_"]],
    ["u8", ["a"], ["b"]], ["u8", [], ["b", "_"]], ["u8"], [], [[]], [[[]]], ["u8", ["a", []], ["b", "_"]], ["u8", ["a", [1, [2]]], ["b", "_"]],
    ["u8", {"value": "a"}, {"value": "b"}], ["u8", {"count": 1}], ["u8", {"count": 1, "count": 2, "value": "a"}], ["u8", {"value": "a", "value": "b", "count": 1}, ["b", "_"]],
    ["u8", {"count": {"x": 1}, "value": "a"}, ["b", "_"]], ["u8", {"count": None, "value": "a"}, ["b", "_"]], ["u8", {"value": None, "count": 1}, ["b", "_"]],
    ["u8", ["a", True], ["b", "_"]], ["u8", ["a", None], ["b", "_"]], ["u8", [None, 1], ["b", "_"]], ["u8", [1, 1], ["b", "_"]], ["u8", [{"s": "x"}, 1], ["b", "_"]],
    ["u8", [["n", 1], 1], ["b", "_"]], ["u8", "u8", ["b", "_"]], ["u16", ["$t(r)", 0], ["b", "_"]], ["i8", ["a", -0.0], ["b", "_"]], ["f32", ["a", -0.0], ["b", "_"]],
    [" u8 ", ["a", 1], ["b", "_"]], ["U8", ["a", 1], ["b", "_"]], [1, ["a", 1]], [None], [True, ["a", 1]], ["f32", ["a", "0.1..0.1"], ["b"]],
]

KEY_NASTY = ["fn", "type", "self", "Self", "crate", "super", "_", "", " ", "a b", "1a", "a-b", "-", "a.b", "a:b", "é", "a ", "r#fn", "_one", "_other", "fn_one", "fn_other",
             "x_ordinal_one", "x_ordinal_other", "_ordinal_one", "_ordinal_other", "x_one", "x_other", "x_many", "x_zero", "count", "var_count", "builders", "subkeys",
             "I18nKeys", "Locale", "new", "builder", "__new_internal", "a" * 300]


def deep_comp(n, name="b"):
    return ("<%s>" % name) * n + "x" + ("</%s>" % name) * n


def deep_obj(n):
    o = "leaf"
    for _ in range(n):
        o = {"k": o}
    return o


def deep_arr(n):
    o = ["a", 1]
    for _ in range(n):
        o = [o]
    return o


def paths(plain, prefix=()):
    out = []
    if isinstance(plain, dict):
        for k, v in plain.items():
            out.append(prefix + (k,))
            out += paths(v, prefix + (k,))
    elif isinstance(plain, list):
        for i, v in enumerate(plain):
            out.append(prefix + (i,))
            out += paths(v, prefix + (i,))
    return out


def get_at(plain, path):
    for p in path:
        plain = plain[p]
    return plain


def set_at(plain, path, v):
    for p in path[:-1]:
        plain = plain[p]
    plain[path[-1]] = v


TOKENS = ["{{", "}}", "<", ">", "</", "$t(", ")", ",", "{", "}", "\"", "'", "\\", ":", ";", "(", "|", "..", "=", "_", "/", " ", "\t", " ", " ", "é", "\U0001F600", "‍"]


WIDE = ["é", "€", "ß", "日", "\U0001F600", "\u00a0", "\u2003", "e\u0301", "\u200d", "ǆ", "İ"]
_SYNTAX = ["}}", "{{", "}", "{", ")", "(", ">", "<", "/", ",", ":", ";", "\"", "$t(", "_", "|", ".."]


def widen(s, rng):
    """Multi-byte characters next to (and instead of the neighbours of) the syntactic tokens of a value: the inputs on which a
    character index and a byte offset differ."""
    if not s:
        return gen.pick(rng, WIDE)
    out = s
    for _ in range(rng.randint(1, 4)):
        tok = gen.pick(rng, _SYNTAX)
        hits = [m.start() for m in re.finditer(re.escape(tok), out)]
        w = gen.pick(rng, WIDE) * rng.randint(1, 3)
        if hits and rng.random() < 0.75:
            h = gen.pick(rng, hits)
            pos = h if rng.random() < 0.6 else h + len(tok)
            out = out[:pos] + w + out[pos:]
        else:
            chars = list(out)
            i = rng.randrange(len(chars))
            if chars[i].isalnum() or chars[i] == " ":
                chars[i] = w
            out = "".join(chars)
    return out


def mutate_string(s, rng):
    r = rng.random()
    if r < 0.12:
        return widen(s if rng.random() < 0.6 else gen.pick(rng, NASTY), rng)
    r = rng.random()
    if r < 0.2:
        return gen.pick(rng, NASTY)
    if r < 0.3:
        return s + gen.pick(rng, NASTY)
    if r < 0.4:
        return gen.pick(rng, NASTY) + s
    chars = list(s)
    n = rng.randint(1, 3)
    for _ in range(n):
        op = rng.random()
        pos = rng.randint(0, len(chars))
        if op < 0.45:
            chars[pos:pos] = list(gen.pick(rng, TOKENS))
        elif op < 0.7 and chars:
            del chars[min(pos, len(chars) - 1)]
        elif op < 0.85 and len(chars) >= 2:
            i = rng.randrange(len(chars) - 1)
            chars[i], chars[i + 1] = chars[i + 1], chars[i]
        elif chars:
            i = rng.randrange(len(chars))
            chars[i:i] = chars[i:i + rng.randint(1, 6)]
    return "".join(chars)


def mutate_plain(plain, rng):
    """One grammar-aware structural mutation of a file's plain data."""
    plain = copy.deepcopy(plain)
    if not isinstance(plain, dict):
        return plain
    ps = paths(plain)
    r = rng.random()
    if not ps or r < 0.08:
        plain[gen.pick(rng, KEY_NASTY)] = gen.pick(rng, ["v", gen.pick(rng, NASTY), gen.pick(rng, RANGE_NASTY), {"x": "y"}, None, 1, True, 1.5, [], {}])
        return plain
    path = gen.pick(rng, ps)
    v = get_at(plain, path)
    if r < 0.5 and isinstance(v, str):
        set_at(plain, path, mutate_string(v, rng))
    elif r < 0.6:
        set_at(plain, path, gen.pick(rng, RANGE_NASTY))
    elif r < 0.68:
        set_at(plain, path, gen.pick(rng, [None, True, 0, -1, 1.5, 1e308, 2**64, -2**63 - 1, "", [], {}, [[]], {"": ""}, [None], {"a": None}]))
    elif r < 0.74:
        set_at(plain, path, gen.pick(rng, [deep_comp(rng.choice([10, 50, 200, 1000, 5000])), deep_comp(rng.choice([10, 300]), "é"),
                                           "{{ x }}" * rng.choice([10, 500]), "$t(a)" * rng.choice([5, 200]), "<" * 2000, "</b>" * 1000 + "<b>" * 1000,
                                           deep_obj(rng.choice([5, 100, 200])), deep_arr(rng.choice([3, 100])), "x" * 60000]))
    elif r < 0.82 and isinstance(path[-1], str):
        # rename a key
        parent = get_at(plain, path[:-1])
        if isinstance(parent, dict):
            val = parent.pop(path[-1])
            parent[gen.pick(rng, KEY_NASTY)] = val
    elif r < 0.9 and isinstance(path[-1], str):
        # turn a key into a plural group / lone form / conflicting group
        parent = get_at(plain, path[:-1])
        if isinstance(parent, dict):
            val = parent.pop(path[-1])
            base = path[-1]
            forms = rng.sample(["_one", "_other", "_many", "_ordinal_one", "_ordinal_other", "_zero", "_few"], rng.randint(1, 4))
            for f in forms:
                parent[base + f] = gen.pick(rng, [val, "$t(%s)" % base, "{{ count }}", gen.pick(rng, NASTY), ["a", 1], {"s": "x"}, None])
            if rng.random() < 0.3:
                parent[base] = val
    else:
        # references: to itself, to a sibling, into plural forms / range branches / args
        keys = [p[-1] for p in ps if isinstance(p[-1], str)]
        tgt = gen.pick(rng, keys) if keys else "a"
        me = path[-1] if isinstance(path[-1], str) else tgt
        set_at(plain, path, gen.pick(rng, [
            "$t(%s)" % me, "$t(%s) $t(%s)" % (tgt, me), "$t(%s, {\"count\": %s})" % (tgt, gen.pick(rng, ["5", "-5", "300", "1.5", "\"{{ n }}\"", "true", "\"x\"", "1e40"])),
            "$t(%s, {\"x\": \"$t(%s)\"})" % (tgt, me), [["$t(%s)" % tgt, 0], ["$t(%s, {\"count\": 3})" % me, "_"]],
            "$t(%s.%s)" % (tgt, tgt), "$t(ns:%s)" % tgt, "$t(%s, {\"count\": \"{{ a }}{{ b }}\"})" % tgt,
            "$t(%s, %s)" % (tgt, json.dumps({gen.pick(rng, ["x", "count", "é", " x "]): widen(gen.pick(rng, ["v", "{{ n }}", "<b>y</b>", ""]), rng)}, ensure_ascii=False)),
            widen("$t(%s, {\"x\": \"v\"})" % tgt, rng),
        ]))
    return plain


def mutate_bytes(data, rng):
    b = bytearray(data)
    for _ in range(rng.randint(1, 4)):
        op = rng.random()
        if not b:
            b += bytes([rng.randrange(256)])
            continue
        pos = rng.randrange(len(b))
        if op < 0.3:
            b[pos] = rng.randrange(256)
        elif op < 0.5:
            del b[pos:pos + rng.randint(1, 8)]
        elif op < 0.7:
            b[pos:pos] = bytes(rng.randrange(256) for _ in range(rng.randint(1, 4)))
        elif op < 0.85:
            b[pos:pos] = gen.pick(rng, TOKENS).encode("utf-8")
        else:
            j = rng.randrange(len(b))
            b[pos:pos] = b[j:j + rng.randint(1, 40)]
    return bytes(b)


CFG_NASTY = [
    {"default": None}, {"locales": None}, {"default": "en", "locales": []}, {"default": "", "locales": [""]}, {"default": "en", "locales": ["en", "en"]},
    {"default": "en", "locales": ["fr"], "inherits": {"en": "fr"}}, {"default": "en", "locales": ["en", "fr"], "inherits": {"fr": "xx"}},
    {"default": "en", "locales": ["en", "fr"], "inherits": {"fr": "fr"}}, {"default": "en", "locales": ["en", "fr"], "namespaces": []},
    {"default": "en", "locales": ["en", "fr"], "namespaces": ["a", "a"]}, {"default": "en", "locales": ["en", "fr"], "namespaces": ["../x"]},
    {"default": "fn", "locales": ["fn"]}, {"default": "not a locale!!", "locales": ["not a locale!!"]}, {"default": "e n", "locales": ["e n"]},
    {"default": "en", "locales": ["en", "x-y-z-invalid-locale-zzzzzzzzzzzz"]}, {"default": "en", "locales": ["en"], "locales_dir": "/nonexistent"},
    {"default": "en", "locales": ["en"], "locales_dir": ""}, {"default": "en", "locales": ["en"], "locales_dir": "../../.."},
    {"default": "en", "locales": ["en", "é"]}, {"default": "en", "locales": ["en", "1x"]}, {"default": "en", "locales": ["en", "en-"]},
    {"default": "en", "locales": ["en", "zz-ZZ"]}, {"default": "und", "locales": ["und"]},
]
