"""C01 Rendered text is exactly what the translation source says.

Stage P (parser boundary): thousands of valid generated projects go through the real
`parse_locales`; every (namespace, locale, key) value is evaluated by pvdump (strings read through
the string table) and compared with model.render on the abstract project.
Stage E (end-to-end boundary): generated probe crates, see e2e.py.
"""
from .. import gen, model, projects, pvdump, workload
from ..common import Result, rng_for, Inconclusive
from ..gen import GenCfg

RULE = ("valid projects from the documented value grammar (projects.gen_valid_project); an evaluation is one "
        "(project, namespace, locale, key, argument assignment) text comparison; non-trivial = the resolved value "
        "has >=2 segments of which >=1 is a variable, component, range, plural or foreign key; distinct by hash of "
        "(resolved value, locale role)")


def cfg_for(tier, rng):
    return GenCfg(p_fk=0.2, closing_ws=True, p_inherits=0.5)


def is_nontrivial(rnodes):
    if len(rnodes) >= 2 and any(r[0] != "text" for r in rnodes):
        return True
    return any(r[0] in ("comp", "range", "plural") for r in rnodes)


def signature_for(kind, rnodes=None, detail=""):
    return "C01/%s%s" % (kind, ("/" + detail) if detail else "")


def check_project(res, project, out, ptable, rng, stage="P", fmt="json"):
    """Compares every key of every locale. Returns number of comparisons."""
    cfg = project["cfg"]
    locales = gen.effective_locales(cfg)
    default = locales[0]
    if out["outcome"] != "ok":
        res.ev()
        res.violation(signature_for("valid-project-rejected", detail=out.get("err_kind", out["outcome"])),
                      "model-valid project was not loaded: %s" % (out.get("err") or out.get("msg") or out["outcome"]),
                      {"project": gen.project_to_jsonable(project), "observed": {k: v for k, v in out.items() if k != "bk"}})
        return
    bk = out["bk"]
    tops = dict(pvdump.top_locales(bk))
    resolver = model.Resolver(project, ptable)
    for ns in (cfg.get("namespaces") or [None]):
        dtree = project["data"][(ns, default)]
        for path, _node in model.leaf_paths(dtree):
            for loc in locales:
                try:
                    eff = model.effective_locale(project, ns, loc, path)
                    rnodes = resolver.key(ns, eff, path)
                except model.ModelError as e:
                    res.count("model-skip:" + e.kind)
                    continue
                assignments, vars_, comps, counts = workload.choose_args(rnodes, rng, 3)
                # observed value: the locale's own entry, or the one it defaults to according to the dump
                pv, _ = pvdump.sub_locale_value_at(bk, ns, loc, path)
                entry = pvdump.find_key(pvdump.keys_of(bk, ns), path)
                src = loc
                if pv is None or entry is None:
                    res.ev()
                    res.violation(signature_for("key-missing-in-dump"), "key %s not present for locale %s" % (path, loc),
                                  {"project": gen.project_to_jsonable(project), "ns": ns, "locale": loc, "path": path})
                    continue
                if pv["t"] == "default":
                    src = entry["default_of"].get(loc)
                    pv, _ = pvdump.sub_locale_value_at(bk, ns, src, path)
                top = None
                for l in tops[ns]:
                    if l["top"] == src:
                        top = l
                for args, cvals in assignments:
                    res.ev()
                    expected = model.render_rnodes(rnodes, args, eff, ptable, cvals)
                    dargs, dcounts = workload.dump_args(args, cvals)
                    try:
                        observed = pvdump.evaluate(pv, top["strings"], dargs, dcounts, eff, ptable)
                    except (pvdump.DumpError, KeyError, TypeError) as e:
                        observed = "<<evaluation error: %s>>" % (e,)
                    if is_nontrivial(rnodes):
                        res.nontriv([rnodes, loc == default, eff == loc])
                    res.count("kind:" + "+".join(sorted({r[0] for r in rnodes})) if len(rnodes) < 4 else "kind:long")
                    if observed != expected:
                        res.violation(
                            signature_for("text-mismatch"),
                            "ns=%r locale=%s (effective %s, dump says %s) key=%s args=%r counts=%r\n  expected %r\n  observed %r" % (
                                ns, loc, eff, src, ".".join(path), args, cvals, expected, observed),
                            {"project": gen.project_to_jsonable(project), "ns": ns, "locale": loc, "path": path,
                             "args": args, "counts": cvals, "expected": expected, "observed": observed, "format": fmt})
                    else:
                        res.sample({"locale": loc, "effective": eff, "key": ".".join(path), "args": args,
                                    "counts": {k: list(v) for k, v in cvals.items()}, "text": observed})


def run(tier, seed, replay=None):
    res = Result("C01", tier, seed, RULE)
    n = 400 if tier == "quick" else 6000
    rng = rng_for(seed, "C01")
    cfg = cfg_for(tier, rng)
    projs = [projects.gen_valid_project(rng, cfg) for _ in range(n)]
    ptable = workload.plural_table_for(projs)
    for fmt, variant in (("json", "json"),):
        dirs, _ = workload.materialise(projs, "c01-" + fmt, fmt=fmt, seed=seed)
        outs = workload.run_projects(dirs, variant)
        for p, o in zip(projs, outs):
            check_project(res, p, o, ptable, rng, fmt=fmt)
    res.extra["projects"] = n
    res.assumptions += ["reference model vlib/model.py", "ICU4X compiled data as the CLDR plural oracle",
                        "literal text never contains < > {{ }} $t( (DESIGN section 1)"]
    return res.finish(min_events=1000)
