"""C01 Rendered text is exactly what the translation source says.

Stage P (parser boundary): thousands of valid generated projects go through the real
`parse_locales`; every (namespace, locale, key) value is evaluated by pvdump (strings read through
the string table) and compared with model.render on the abstract project.
Stage E (end-to-end boundary): generated probe crates, see e2e.py.
"""
from .. import gen, model, projects, pvdump, workload
from ..common import Result, rng_for, Inconclusive
from ..gen import GenCfg

RULE = ("valid projects from the documented value grammar (projects.gen_valid_project); an evaluation is one "
        "(project, namespace, locale, key, argument assignment) text comparison; non-trivial = the resolved value "
        "has >=2 segments of which >=1 is a variable, component, range, plural or foreign key; distinct by hash of "
        "(resolved value, locale role)")


def cfg_for(tier, rng):
    return GenCfg(p_fk=0.2, closing_ws=True, p_inherits=0.5)


def is_nontrivial(rnodes):
    if len(rnodes) >= 2 and any(r[0] != "text" for r in rnodes):
        return True
    return any(r[0] in ("comp", "range", "plural") for r in rnodes)


_PROP = ["C01"]


def signature_for(kind, rnodes=None, detail=""):
    return "%s/%s%s" % (_PROP[0], kind, ("/" + detail) if detail else "")


def check_project(res, project, out, ptable, rng, stage="P", fmt="json", prop="C01", resolver=None, only_paths=None, classify=None):
    _PROP[0] = prop
    try:
        return _check_project(res, project, out, ptable, rng, stage, fmt, resolver, only_paths, classify)
    finally:
        _PROP[0] = "C01"


def has_int_beyond_i64(obj):
    if isinstance(obj, bool):
        return False
    if isinstance(obj, int):
        return obj > 2**63 - 1
    if isinstance(obj, dict):
        return any(has_int_beyond_i64(v) for v in obj.values())
    if isinstance(obj, (list, tuple)):
        return any(has_int_beyond_i64(v) for v in obj)
    return False


def _check_project(res, project, out, ptable, rng, stage, fmt, resolver, only_paths, classify):
    """Compares every key of every locale. Returns number of comparisons."""
    cfg = project["cfg"]
    locales = gen.effective_locales(cfg)
    default = locales[0]
    if out["outcome"] != "ok" and fmt == "json5" and "error parsing integer" in (out.get("err") or "") and has_int_beyond_i64(project):
        # the json5 crate reads every integer as i64: an integer above i64::MAX cannot be written in that format at all
        res.count("json5-integer-above-i64-max-not-representable")
        return 0
    if out["outcome"] != "ok":
        res.ev()
        res.violation(signature_for("valid-project-rejected", detail=out.get("err_kind", out["outcome"])),
                      "model-valid project was not loaded: %s" % (out.get("err") or out.get("msg") or out["outcome"]),
                      {"project": gen.project_to_jsonable(project), "observed": {k: v for k, v in out.items() if k != "bk"}})
        return
    bk = out["bk"]
    tops = dict(pvdump.top_locales(bk))
    resolver = resolver or model.Resolver(project, ptable)
    for ns in (cfg.get("namespaces") or [None]):
        dtree = project["data"][(ns, default)]
        for path, _node in model.leaf_paths(dtree):
            if only_paths is not None and (ns, tuple(path)) not in only_paths:
                continue
            for loc in locales:
                try:
                    eff = model.effective_locale(project, ns, loc, path)
                    rnodes = resolver.key(ns, eff, path)
                except model.ModelError as e:
                    res.count("model-skip:" + e.kind)
                    continue
                assignments, vars_, comps, counts = workload.choose_args(rnodes, rng, 3)
                # observed value: the locale's own entry, or the one it defaults to according to the dump
                pv, _ = pvdump.sub_locale_value_at(bk, ns, loc, path)
                entry = pvdump.find_key(pvdump.keys_of(bk, ns), path)
                src = loc
                if pv is None or entry is None:
                    res.ev()
                    res.violation(signature_for("key-missing-in-dump"), "key %s not present for locale %s" % (path, loc),
                                  {"project": gen.project_to_jsonable(project), "ns": ns, "locale": loc, "path": path})
                    continue
                if pv["t"] == "default":
                    src = entry["default_of"].get(loc)
                    pv, _ = pvdump.sub_locale_value_at(bk, ns, src, path)
                top = None
                for l in tops[ns]:
                    if l["top"] == src:
                        top = l
                for args, cvals in assignments:
                    res.ev()
                    expected = model.render_rnodes(rnodes, args, eff, ptable, cvals)
                    dargs, dcounts = workload.dump_args(args, cvals)
                    try:
                        observed = pvdump.evaluate(pv, top["strings"], dargs, dcounts, eff, ptable)
                    except (pvdump.DumpError, KeyError, TypeError) as e:
                        observed = "<<evaluation error: %s>>" % (e,)
                    if is_nontrivial(rnodes):
                        res.nontriv([rnodes, loc == default, eff == loc])
                    res.count("kind:" + "+".join(sorted({r[0] for r in rnodes})) if len(rnodes) < 4 else "kind:long")
                    if observed != expected:
                        extra = classify(project, ns, loc, path, args, cvals, observed, ptable) if classify else ""
                        res.violation(
                            signature_for("text-mismatch", detail=extra),
                            "ns=%r locale=%s (effective %s, dump says %s) key=%s args=%r counts=%r\n  expected %r\n  observed %r" % (
                                ns, loc, eff, src, ".".join(path), args, cvals, expected, observed),
                            {"project": gen.project_to_jsonable(project), "ns": ns, "locale": loc, "path": path,
                             "args": args, "counts": cvals, "expected": expected, "observed": observed, "format": fmt})
                    else:
                        res.sample({"locale": loc, "effective": eff, "key": ".".join(path), "args": args,
                                    "counts": {k: list(v) for k, v in cvals.items()}, "text": observed})


E2E_VARS = ["name", "x", "y", "value", "n", "who", "what", "amount", "a_b", "v2", "total"]
E2E_COMPS = ["b", "i", "a", "span", "strong", "em", "h1", "p", "u", "c1"]


def e2e_cfg(**kw):
    base = dict(p_fk=0.2, p_empty_comp=0.0, long_keys=[27, 29, 40, 53], var_pool=E2E_VARS, comp_pool=E2E_COMPS, n_keys=(10, 18), n_locales=(2, 4), namespaces=0.3)
    base.update(kw)
    return GenCfg(**base)


def plural_ambiguous(rnodes, cvals, loc, eff, ptable):
    """True when a defaulted locale renders a plural whose category differs between the requested
    locale and the locale the text comes from: the properties do not say whose rules apply."""
    if loc == eff:
        return False
    for r in rnodes:
        if r[0] == "plural":
            n = cvals[r[2]][1]
            if ptable[loc][r[1]]["cat"][str(n)] != ptable[eff][r[1]]["cat"][str(n)]:
                return True
            if any(plural_ambiguous(b, cvals, loc, eff, ptable) for b in r[3].values()):
                return True
        elif r[0] == "comp":
            if plural_ambiguous(r[2], cvals, loc, eff, ptable):
                return True
        elif r[0] == "range":
            if any(plural_ambiguous(b, cvals, loc, eff, ptable) for _, b in r[3]):
                return True
    return False


def add_e2e_observations(crate, project, ptable, rng, n_assign=2, flavours=("td_string", "td_display", "td")):
    """One observation per (ns, locale, key, assignment); expectation from the model."""
    from .. import e2e
    cfg = project["cfg"]
    locales = gen.effective_locales(cfg)
    default = locales[0]
    resolver = model.Resolver(project, ptable)
    for ns in (cfg.get("namespaces") or [None]):
        for path, _ in model.leaf_paths(project["data"][(ns, default)]):
            # the argument set a caller must supply is the union over all locales (C08)
            per_loc = {}
            allv, allc, allcnt = {}, set(), {}
            ok = True
            for loc in locales:
                try:
                    eff = model.effective_locale(project, ns, loc, path)
                    rn = resolver.key(ns, eff, path)
                except model.ModelError:
                    ok = False
                    break
                per_loc[loc] = (eff, rn)
                model.collect_vars(rn, allv, allc, allcnt)
            if not ok:
                continue
            union_nodes = [r for (_, rn) in per_loc.values() for r in rn]
            assignments, _, _, _ = workload.choose_args(union_nodes, rng, n_assign)
            kp = e2e.key_path_tokens(ns, path)
            for loc in locales:
                eff, rn = per_loc[loc]
                lv = "Locale::" + e2e.ident(loc)
                for args, cvals in assignments:
                    # values a plain `{{ count }}` may see in a locale where the key has no range
                    full_args = dict(args)
                    if plural_ambiguous(rn, cvals, loc, eff, ptable):
                        continue
                    expected = model.render_rnodes(rn, full_args, eff, ptable, cvals)
                    sa = e2e.args_tokens(args, cvals, allc, "string")
                    va = e2e.args_tokens(args, cvals, allc, "view")
                    sep_s = ", " if sa else ""
                    sep_v = ", " if va else ""
                    body = []
                    oid = crate.next_id
                    if "td_string" in flavours:
                        body.append("    { let v = td_string!(%s, %s%s%s); emit(%d, \"td_string\", &v.to_string()); }" % (lv, kp, sep_s, sa, oid))
                    if "td_display" in flavours:
                        body.append("    { let v = td_display!(%s, %s%s%s); emit(%d, \"td_display\", &v.to_string()); }" % (lv, kp, sep_s, sa, oid))
                    if "td" in flavours:
                        body.append("    { let v = td!(%s, %s%s%s); emit(%d, \"td\", &html(v)); }" % (lv, kp, sep_v, va, oid))
                    crate.add("\n".join(body), {"ns": ns, "locale": loc, "effective": eff, "path": list(path), "args": args,
                                                "counts": cvals, "expected": expected, "rnodes": rn})
                    if len(args) >= 2 and (args, cvals) == assignments[0]:
                        # the argument expressions mention locals that are named like the *other* variables of the key (a = b, b = a):
                        # each variable must receive the value of the expression written for it, evaluated in the caller's scope
                        names = sorted(args)
                        rot = {names[i]: names[(i + 1) % len(names)] for i in range(len(names))}
                        lets = " ".join("let %s = %s;" % (e2e.ident(n), e2e.rust_str(args[n])) for n in names)
                        swapped = {n: args[rot[n]] for n in names}
                        rest_s = e2e.args_tokens({}, cvals, allc, "string")
                        rest_v = e2e.args_tokens({}, cvals, allc, "view")
                        toks = ", ".join("%s = %s" % (e2e.ident(n), e2e.ident(rot[n])) for n in names)
                        oid = crate.next_id
                        body = []
                        if "td_string" in flavours:
                            body.append("    { %s let v = td_string!(%s, %s, %s%s); emit(%d, \"td_string\", &v.to_string()); }" % (lets, lv, kp, toks, (", " + rest_s) if rest_s else "", oid))
                        if "td" in flavours:
                            body.append("    { %s let v = td!(%s, %s, %s%s); emit(%d, \"td\", &html(v)); }" % (lets, lv, kp, toks, (", " + rest_v) if rest_v else "", oid))
                        crate.add("\n".join(body), {"ns": ns, "locale": loc, "effective": eff, "path": list(path), "args": swapped, "counts": cvals,
                                                    "expected": model.render_rnodes(rn, swapped, eff, ptable, cvals), "rnodes": rn, "swapped": True,
                                                    "only": [f for f in ("td_string", "td") if f in flavours]})


def judge_e2e(res, crate, obs, flavours=("td_string", "td_display", "td"), prop_sig="C01"):
    from .. import e2e
    for oid, exp in crate.expect.items():
        got = obs.get(oid, {})
        for fl in (exp.get("only") or flavours):
            res.ev()
            if exp.get("swapped"):
                res.count("e2e:arguments-named-like-other-variables")
            o = got.get(fl) or got.get("*")
            if o is None:
                text = "<<no observation>>"
            elif "panic" in o:
                text = "<<panic: %s>>" % o["panic"]
            else:
                text = e2e.normalise_html(o["v"]) if fl in ("td", "t", "tu") else o["v"]
                if fl in ("td", "t", "tu") and exp["expected"] == "" and text == " ":
                    text = ""     # leptos SSR writes a one-space placeholder for an empty text node (see DESIGN section 9)
            if is_nontrivial(exp["rnodes"]):
                res.nontriv([exp["rnodes"], exp["locale"] == exp["effective"], fl])
            res.count("e2e:" + fl)
            if text != exp["expected"]:
                res.violation("%s/e2e-text-mismatch/%s" % (prop_sig, fl),
                              "crate=%s flavour=%s ns=%r locale=%s (effective %s) key=%s args=%r counts=%r\n  expected %r\n  observed %r" % (
                                  crate.name, fl, exp["ns"], exp["locale"], exp["effective"], ".".join(exp["path"]), exp["args"], exp["counts"],
                                  exp["expected"], text),
                              {"project": gen.project_to_jsonable(crate.project), "flavour": fl, "expect": {k: v for k, v in exp.items() if k != "rnodes"},
                               "observed": text, "format": crate.fmt})
            elif fl == "td":
                res.sample({"stage": "e2e", "flavour": fl, "locale": exp["locale"], "key": ".".join(exp["path"]), "args": exp["args"], "text": text}, limit=9)


def run_e2e(res, tier, seed, tag, n_crates, cfg, flavours=("td_string", "td_display", "td"), n_assign=2, fmts=("json",), prop_sig="C01"):
    from .. import e2e
    rng = rng_for(seed, tag, "e2e")
    crates = []
    projs = [projects.gen_valid_project(rng, cfg) for _ in range(n_crates)]
    # the first project (every fourth in the thorough tier): an inheritance chain whose children leave half of their keys to the parent
    icfg = GenCfg(**{**cfg.__dict__, "n_locales": (3, 4), "force_inherits": True})
    for i in range(0, n_crates, 4):
        projs[i] = projects.gen_valid_project(rng, icfg)
    ptable = workload.plural_table_for(projs)
    for i, p in enumerate(projs):
        fmt = fmts[i % len(fmts)]
        if fmt == "json5" and has_int_beyond_i64(gen.project_to_jsonable(p)):
            fmt = "json"      # the json5 crate reads integers as i64 only: such a project cannot be written in that format
        c = e2e.ProbeCrate("%s_%d" % (tag.replace("-", "_"), i), p, fmt=fmt)
        add_e2e_observations(c, p, ptable, rng, n_assign, flavours)
        crates.append(c)
    root = e2e.write_workspace(tag, crates, seed=seed)
    status, secs, stderr = e2e.build_workspace(root, crates)
    res.extra.setdefault("e2e", {})["build_s"] = round(secs, 1)
    res.extra["e2e"]["crates"] = len(crates)
    res.extra["e2e"]["call_sites"] = sum(len(c.obs) for c in crates) * len(flavours)
    for c in crates:
        st = status[c.name]
        if not st["ok"]:
            res.ev()
            res.violation("%s/e2e-valid-project-does-not-compile" % prop_sig,
                          "probe crate %s for a model-valid project did not compile:\n%s" % (c.name, "\n".join(st["messages"])[:3000]),
                          {"project": gen.project_to_jsonable(c.project), "messages": st["messages"][:5], "format": c.fmt, "root": root})
            continue
        obs, done, rc, err = e2e.run_crate(st["exe"])
        if not done:
            res.inconclusive.append("probe crate %s did not finish (rc=%r): %s" % (c.name, rc, err[-300:]))
        judge_e2e(res, c, obs, flavours, prop_sig)
    return crates


def run(tier, seed, replay=None):
    res = Result("C01", tier, seed, RULE)
    n = 400 if tier == "quick" else 20000
    rng = rng_for(seed, "C01")
    cfg = cfg_for(tier, rng)
    projs = [projects.gen_valid_project(rng, cfg) for _ in range(n)]
    ptable = workload.plural_table_for(projs)
    # the same abstract projects written in the two other file formats (their own quoting / escaping / number syntax)
    share = {"json": n, "yaml": n // 4, "json5": n // 4}
    for fmt, variant in (("json", "json"), ("yaml", "yaml"), ("json5", "json5")):
        sub = projs[:share[fmt]] if fmt == "json" else projs[-share[fmt]:]
        dirs, _ = workload.materialise(sub, "c01-" + fmt, fmt=fmt, seed=seed)
        outs = workload.run_projects(dirs, variant)
        for p, o in zip(sub, outs):
            check_project(res, p, o, ptable, rng, fmt=fmt)
        res.extra.setdefault("projects_by_format", {})[fmt] = len(sub)
    res.extra["projects"] = n
    run_e2e(res, tier, seed, "c01", 3 if tier == "quick" else 48, e2e_cfg(), fmts=("json", "json", "yaml", "json5"))
    res.assumptions += ["reference model vlib/model.py", "ICU4X compiled data as the CLDR plural oracle",
                        "literal text never contains < > {{ }} $t( (DESIGN section 1)"]
    return res.finish(min_events=1000)
