"""C02 Every accessor flavour of a key denotes the same text.

Pure differential monitor inside generated probe crates: for the same (locale, key, args) the
outputs of td_string!/td_display!/td!, of t!/tu!/t_string!/tu_string!/t_display!/tu_display! under a
context set to that locale, of the const accessor chain (literal keys) and of every scoping prefix
(scope_locale!, scope_i18n!, use_i18n_scoped!, chained) must be the same text."""
from .. import e2e, gen, model, projects, workload
from ..common import Result, rng_for
from . import c01

RULE = ("generated valid projects compiled into probe crates; an evaluation is one (locale, key, args, flavour) text "
        "compared with the td_string! text of the same (locale, key, args); non-trivial = value has a variable, "
        "component, range or plural, or the flavour is a scoped one; distinct by hash of (resolved value, flavour)")

CTX_FLAVOURS = ["t", "tu", "t_string", "tu_string", "t_display", "tu_display"]


def lit_kind(per_loc):
    """'str' when every locale's value is pure text, a numeric kind when every locale is the same
    single literal type; None otherwise (no const accessor expected)."""
    kinds = set()
    for _, rn in per_loc.values():
        if all(r[0] == "text" for r in rn):
            kinds.add("str")
        elif len(rn) == 1 and rn[0][0] == "lit":
            kinds.add(rn[0][1] if rn[0][1] != "int" else ("uint" if rn[0][2] >= 0 else "sint"))
        else:
            return None
    return kinds.pop() if len(kinds) == 1 else None


def add_plural_keys(project, rng):
    """One ordinal and one cardinal plural key with every form written (distinct text per form and locale), in every
    locale: whatever category a count falls in, a wrong rule set or a wrong form shows as a different text."""
    cfg = project["cfg"]
    ns = (cfg.get("namespaces") or [None])[0]
    for rule in ("ordinal", "cardinal"):
        name = "zz_%s_forms" % rule
        for (n, loc), tree in project["data"].items():
            if n != ns:
                continue
            forms = {f: [{"s": "text", "v": "%s %s %s " % (loc, rule[:3], f)}, {"s": "var", "name": "count", "fmt": None}] for f in gen.FORMS}
            tree.append([name, {"k": "plural", "rule": rule, "forms": forms}])


FMT_KEYS = [
    ("number", None, "num"), ("number", [["grouping_strategy", "never"]], "num"), ("number", [["grouping_strategy", "always"]], "num"),
    ("number", [["grouping_strategy", "min2"]], "num"), ("currency", [["width", "narrow"], ["currency_code", "EUR"]], "num"), ("currency", None, "num"),
    ("date", [["date_length", "long"]], "date"), ("date", None, "date"), ("time", None, "time"), ("time", [["time_length", "medium"]], "time"),
    ("datetime", [["date_length", "short"], ["time_length", "short"]], "datetime"), ("list", [["list_type", "or"], ["list_style", "short"]], "list"), ("list", None, "list"),
]
FMT_VALUES = {
    "num": ["1234.5f64", "-0.25f64", "1000000i64", "7u8"],
    "date": ["leptos_i18n::reexports::icu::calendar::Date::try_new_iso_date(2024, 2, 29).unwrap().to_any()"],
    "time": ["leptos_i18n::reexports::icu::calendar::Time::try_new(14, 34, 28, 0).unwrap()"],
    "datetime": ["leptos_i18n::reexports::icu::calendar::DateTime::new(leptos_i18n::reexports::icu::calendar::Date::try_new_iso_date(1970, 1, 2).unwrap().to_any(), "
                 "leptos_i18n::reexports::icu::calendar::Time::try_new(0, 5, 9, 0).unwrap())"],
    "list": ['["A", "B", "C"]', '["x"]'],
}


def add_formatter_keys(project):
    """One key per formatter family / option set, in every locale: the string, display and view flavours go through three
    different run-time helpers per family (`*_to_formatter`, `*_to_display`, `*_to_view`)."""
    cfg = project["cfg"]
    ns = (cfg.get("namespaces") or [None])[0]
    locales = gen.effective_locales(cfg)
    for (n, loc), tree in project["data"].items():
        if n != ns:
            continue
        if len(locales) >= 2 and loc == locales[-1]:
            continue      # the last locale has none of these keys: it renders another locale's value with its own formatters
        for i, (name, args, _) in enumerate(FMT_KEYS):
            tree.append(["zz_fmt%d" % i, {"k": "tmpl", "segs": [{"s": "text", "v": "%s f%d: " % (loc, i)},
                                                                {"s": "var", "name": "v", "fmt": {"name": name, "args": args}}, {"s": "text", "v": " ."}]}])


def add_formatter_observations(crate, project, rng):
    cfg = project["cfg"]
    ns = (cfg.get("namespaces") or [None])[0]
    locales = gen.effective_locales(cfg)
    for i, (name, args, vkind) in enumerate(FMT_KEYS):
        kp = e2e.key_path_tokens(ns, ["zz_fmt%d" % i])
        for loc in ([locales[-1]] + rng.sample(locales[:-1], 1) if len(locales) >= 2 else locales):
            lv = "Locale::" + e2e.ident(loc)
            for val in FMT_VALUES[vkind]:
                oid = crate.next_id
                sval = val
                b = ['    { let v = td_string!(%s, %s, v = %s); emit(%d, "td_string", &v.to_string()); }' % (lv, kp, sval, oid),
                     '    { let v = td_display!(%s, %s, v = %s); emit(%d, "td_display", &v.to_string()); }' % (lv, kp, sval, oid),
                     '    { let v = td!(%s, %s, v = move || %s); emit(%d, "td", &html(v)); }' % (lv, kp, val, oid),
                     '    with_ctx(%s, |i18n| {' % lv,
                     '        { let v = t!(i18n, %s, v = move || %s); emit(%d, "t", &html(v)); }' % (kp, val, oid),
                     '        { let v = t_string!(i18n, %s, v = %s); emit(%d, "t_string", &v.to_string()); }' % (kp, sval, oid),
                     '        { let v = tu_display!(i18n, %s, v = %s); emit(%d, "tu_display", &v.to_string()); }' % (kp, sval, oid),
                     '    });']
                crate.add("\n".join(b), {"ns": ns, "locale": loc, "effective": loc, "path": ["zz_fmt%d" % i], "args": {"v": val}, "counts": {}, "expected": None,
                                         "rnodes": [("var", "v", name, args)], "flavours": ["td_string", "td_display", "td", "t", "t_string", "tu_display"], "depth": 0, "formatter": name})


LIT_KEYS = [("zz_lit_whole", "float", 2.0), ("zz_lit_exp", "float", 6.02e23), ("zz_lit_small", "float", 1.5e-7), ("zz_lit_frac", "float", -2.25),
            ("zz_lit_int", "int", -7), ("zz_lit_uint", "int", 18446744073709551615), ("zz_lit_bool", "bool", True)]


def add_literal_keys(project):
    """Bare number / boolean keys of the same literal kind in every locale (whole, exponent-sized, tiny and fractional floats, a negative
    and the largest integer): the const accessor, the string, display and view flavours each print them through another function."""
    cfg = project["cfg"]
    ns = (cfg.get("namespaces") or [None])[0]
    for (n, loc), tree in project["data"].items():
        if n == ns:
            for name, ty, v in LIT_KEYS:
                tree.append([name, {"k": "lit", "ty": ty, "v": v}])


def add_observations(crate, project, ptable, rng, max_keys=40):
    cfg = project["cfg"]
    locales = gen.effective_locales(cfg)
    default = locales[0]
    resolver = model.Resolver(project, ptable)
    keys = []
    for ns in (cfg.get("namespaces") or [None]):
        for path, _ in model.leaf_paths(project["data"][(ns, default)]):
            keys.append((ns, path))
    keys = [k for k in keys if not k[1][-1].startswith("zz_fmt")]
    rng.shuffle(keys)
    # deep paths first: they carry the scoping flavours
    keys.sort(key=lambda k: (-len(k[1]), not k[1][-1].startswith("long_")))
    first = lambda k: k[1][-1].startswith("long_") or k[1][-1].startswith("zz_")  # noqa: E731
    keys = [k for k in keys if first(k)] + [k for k in keys if not first(k)]
    for ns, path in keys[:max_keys]:
        per_loc = {}
        allv, allc, allcnt = {}, set(), {}
        try:
            for loc in locales:
                eff = model.effective_locale(project, ns, loc, path)
                per_loc[loc] = (eff, resolver.key(ns, eff, path))
                model.collect_vars(per_loc[loc][1], allv, allc, allcnt)
        except model.ModelError:
            continue
        union_nodes = [r for (_, rn) in per_loc.values() for r in rn]
        assignments, _, _, counts = workload.choose_args(union_nodes, rng, 6)
        kp = e2e.key_path_tokens(ns, path)
        prefix = ([ns] if ns is not None else []) + list(path[:-1])
        lk = lit_kind(per_loc)
        # count-bearing keys: the first assignment gets every flavour, the others (other counts, other locales) the five
        # basic ones, so that each written branch / plural form is compared across flavours, not one per key
        for ai, (args, cvals) in enumerate(assignments):
            full = ai == 0
            loc = locales[rng.randrange(len(locales))]
            eff, rn = per_loc[loc]
            # (no skip of the locale pairs whose plural categories differ: C02 compares flavours with each other, not with the model)
            lv = "Locale::" + e2e.ident(loc)
            sa = e2e.args_tokens(args, cvals, allc, "string")
            va = e2e.args_tokens(args, cvals, allc, "view")
            S = (", " + sa) if sa else ""
            V = (", " + va) if va else ""
            oid = crate.next_id
            b = []
            b.append('    { let v = td_string!(%s, %s%s); emit(%d, "td_string", &v.to_string()); }' % (lv, kp, S, oid))
            b.append('    { let v = td_display!(%s, %s%s); emit(%d, "td_display", &v.to_string()); }' % (lv, kp, S, oid))
            b.append('    { let v = td!(%s, %s%s); emit(%d, "td", &html(v)); }' % (lv, kp, V, oid))
            b.append('    with_ctx(%s, |i18n| {' % lv)
            if not full:
                flavours = ["td_string", "td_display", "td", "t", "t_string"]
                b.append('        { let v = t!(i18n, %s%s); emit(%d, "t", &html(v)); }' % (kp, V, oid))
                b.append('        { let v = t_string!(i18n, %s%s); emit(%d, "t_string", &v.to_string()); }' % (kp, S, oid))
                b.append('    });')
            else:
                flavours = ["td_string", "td_display", "td"] + CTX_FLAVOURS
                b.append('        emit(%d, "ctx_locale", leptos_i18n::Locale::as_str(i18n.get_locale_untracked()));' % oid)
                b.append('        { let v = t!(i18n, %s%s); emit(%d, "t", &html(v)); }' % (kp, V, oid))
                b.append('        { let v = tu!(i18n, %s%s); emit(%d, "tu", &html(v)); }' % (kp, V, oid))
                for m in ("t_string", "tu_string", "t_display", "tu_display"):
                    b.append('        { let v = %s!(i18n, %s%s); emit(%d, "%s", &v.to_string()); }' % (m, kp, S, oid, m))
                # scoping prefixes
                idents = [e2e.ident(p) for p in prefix]
                last = e2e.ident(path[-1])
                for k in range(1, len(idents) + 1):
                    pre = ".".join(idents[:k])
                    rest = ".".join(idents[k:] + [last])
                    f1, f2, f3 = "scope_i18n:%d" % k, "use_i18n_scoped:%d" % k, "scope_i18n_view:%d" % k
                    b.append('        { let s = scope_i18n!(i18n, %s); let v = t_string!(s, %s%s); emit(%d, "%s", &v.to_string()); '
                             'emit(%d, "%s:locale", leptos_i18n::Locale::as_str(s.get_locale_untracked())); }' % (pre, rest, S, oid, f1, oid, f1))
                    b.append('        { let s = use_i18n_scoped!(%s); let v = t_display!(s, %s%s); emit(%d, "%s", &v.to_string()); }' % (pre, rest, S, oid, f2))
                    b.append('        { let s = scope_i18n!(i18n, %s); let v = t!(s, %s%s); emit(%d, "%s", &html(v)); }' % (pre, rest, V, oid, f3))
                    flavours += [f1, f2, f3]
                if len(idents) >= 2:
                    chain = "let s = scope_i18n!(i18n, %s); " % idents[0] + "".join("let s = scope_i18n!(s, %s); " % i for i in idents[1:])
                    b.append('        { %slet v = tu_string!(s, %s%s); emit(%d, "scope_i18n:chained", &v.to_string()); }' % (chain, last, S, oid))
                    flavours.append("scope_i18n:chained")
                b.append('    });')
                for k in range(1, len(idents) + 1):
                    pre = ".".join(idents[:k])
                    rest = ".".join(idents[k:] + [last])
                    f = "scope_locale:%d" % k
                    b.append('    { let s = scope_locale!(%s, %s); let v = td_string!(s, %s%s); emit(%d, "%s", &v.to_string()); '
                             'emit(%d, "%s:locale", leptos_i18n::Locale::as_str(s)); }' % (lv, pre, rest, S, oid, f, oid, f))
                    flavours.append(f)
                if len(idents) >= 2:
                    chain = "let s = scope_locale!(%s, %s); " % (lv, idents[0]) + "".join("let s = scope_locale!(s, %s); " % i for i in idents[1:])
                    b.append('    { %slet v = td!(s, %s%s); emit(%d, "scope_locale:chained", &html(v)); }' % (chain, last, V, oid))
                    flavours.append("scope_locale:chained")
                # every other locale: string against view flavour (a locale without its own value takes both from the same place)
                for l2 in locales:
                    if l2 != loc:
                        b.append('    { emit(%d, "pl_s:%s", &td_string!(Locale::%s, %s%s).to_string()); emit(%d, "pl_v:%s", &html(td!(Locale::%s, %s%s))); }' % (
                            oid, l2, e2e.ident(l2), kp, S, oid, l2, e2e.ident(l2), kp, V))
                # the other argument syntaxes of the t! family: bare `name` / `<comp>` (a variable of that name in scope), and
                # `<comp> = <tag attrs />` against the closure it stands for
                if args or cvals or allc:
                    ls, ts = e2e.shorthand_tokens(args, cvals, allc, "string")
                    lw, tw = e2e.shorthand_tokens(args, cvals, allc, "view")
                    b.append('    { %s let v = td_string!(%s, %s, %s); emit(%d, "td_string:shorthand", &v.to_string()); }' % (ls, lv, kp, ts, oid))
                    b.append('    { %s let v = td!(%s, %s, %s); emit(%d, "td:shorthand", &html(v)); }' % (lw, lv, kp, tw, oid))
                    flavours += ["td_string:shorthand", "td:shorthand"]
                if allc:
                    d1, d2 = e2e.direct_comp_tokens(args, cvals, allc)
                    b.append('    { let v = td!(%s, %s, %s); emit(%d, "direct_comp:tag", &html(v)); }' % (lv, kp, d1, oid))
                    b.append('    { let v = td!(%s, %s, %s); emit(%d, "direct_comp:closure", &html(v)); }' % (lv, kp, d2, oid))
                if lk is not None:
                    chain = ".".join("%s()" % i for i in idents + [last])
                    b.append('    { let v = %s.get_keys_const().%s.inner(); emit(%d, "const", &v.to_string()); }' % (lv, chain, oid))
                    flavours.append("const")
            expected = model.render_rnodes(rn, args, eff, ptable, cvals)
            crate.add("\n".join(b), {"ns": ns, "locale": loc, "effective": eff, "path": list(path), "args": args, "counts": cvals,
                                     "expected": expected, "rnodes": rn, "flavours": flavours, "depth": len(prefix), "sweep": ai})


VIEW = ("td", "t", "tu")


def is_view(fl):
    return fl in VIEW or fl.startswith("scope_i18n_view") or fl in ("scope_locale:chained", "td:shorthand")


def judge(res, crate, obs):
    for oid, exp in crate.expect.items():
        got = obs.get(oid, {})
        base = got.get("td_string")
        if "*" in got or base is None:
            res.ev()
            res.violation("C02/observation-missing-or-panic",
                          "crate=%s key=%s locale=%s: %r" % (crate.name, ".".join(exp["path"]), exp["locale"], got.get("*")),
                          {"project": gen.project_to_jsonable(crate.project), "expect": {k: v for k, v in exp.items() if k != "rnodes"}})
            continue
        base_text = base["v"]
        if exp["expected"] is not None:
            res.count("baseline-agrees-with-model" if base_text == exp["expected"] else "baseline-differs-from-model(C01)")
        else:
            res.count("formatter-key:" + exp["formatter"])
        for fl in exp["flavours"]:
            if fl == "td_string":
                continue
            res.ev()
            o = got.get(fl)
            if o is None:
                text = "<<no observation>>"
            else:
                text = e2e.normalise_html(o["v"]) if is_view(fl) else o["v"]
            nontriv = c01.is_nontrivial(exp["rnodes"]) or ":" in fl
            if nontriv:
                res.nontriv([exp["rnodes"], fl.split(":")[0]])
            res.count("flavour:" + fl.split(":")[0])
            if text != base_text:
                res.violation("C02/flavour-differs/" + fl.split(":")[0],
                              "crate=%s ns=%r locale=%s key=%s flavour=%s args=%r counts=%r\n  td_string %r\n  %s %r" % (
                                  crate.name, exp["ns"], exp["locale"], ".".join(exp["path"]), fl, exp["args"], exp["counts"], base_text, fl, text),
                              {"project": gen.project_to_jsonable(crate.project), "flavour": fl, "baseline": base_text, "observed": text,
                               "expect": {k: v for k, v in exp.items() if k != "rnodes"}, "format": crate.fmt})
            else:
                res.sample({"locale": exp["locale"], "key": ".".join(exp["path"]), "flavour": fl, "text": text}, limit=8)
        for fl, o in got.items():
            if fl.startswith("pl_s:"):
                res.ev()
                res.count("flavour:per-locale-string-vs-view")
                v = got.get("pl_v:" + fl[5:])
                vt = e2e.normalise_html(v["v"]) if v else "<<no observation>>"
                if o["v"] != vt:
                    res.violation("C02/flavour-differs/per-locale", "crate=%s key=%s locale=%s: td_string %r, td %r" % (crate.name, ".".join(exp["path"]), fl[5:], o["v"], vt),
                                  {"project": gen.project_to_jsonable(crate.project), "locale": fl[5:], "expect": {k: v for k, v in exp.items() if k != "rnodes"}})
        if "direct_comp:tag" in got or "direct_comp:closure" in got:
            res.ev()
            res.count("flavour:direct_comp")
            a, b_ = (got.get("direct_comp:tag") or {}).get("v"), (got.get("direct_comp:closure") or {}).get("v")
            if a is None or a != b_:
                res.violation("C02/flavour-differs/direct_comp", "crate=%s key=%s locale=%s: `<c> = <span .. />` renders %r, the closure it stands for %r" % (
                    crate.name, ".".join(exp["path"]), exp["locale"], a, b_), {"project": gen.project_to_jsonable(crate.project), "expect": {k: v for k, v in exp.items() if k != "rnodes"}})
        # scoping never changes the locale
        for fl, o in got.items():
            if fl.endswith(":locale") or fl == "ctx_locale":
                res.ev()
                if o["v"] != exp["locale"]:
                    res.violation("C02/scope-changed-locale", "crate=%s key=%s flavour=%s reports locale %r, expected %r" % (
                        crate.name, ".".join(exp["path"]), fl, o["v"], exp["locale"]),
                        {"project": gen.project_to_jsonable(crate.project), "flavour": fl, "observed": o["v"], "expected": exp["locale"]})


def run(tier, seed, replay=None):
    res = Result("C02", tier, seed, RULE)
    rng = rng_for(seed, "C02")
    n_crates = 4 if tier == "quick" else 48
    cfg = c01.e2e_cfg(p_sub=0.35, max_depth=3, n_keys=(14, 22), namespaces=0.4, p_fk=0.15, p_lit_other=0.15)
    projs = [projects.gen_valid_project(rng, cfg) for _ in range(n_crates)]
    # the first project (every fourth in the thorough tier) has an inheritance chain whose children leave half of their keys to the parent
    icfg = c01.e2e_cfg(p_sub=0.35, max_depth=3, n_keys=(14, 22), namespaces=0.4, p_fk=0.15, p_lit_other=0.15, n_locales=(3, 4), force_inherits=True)
    for i in range(0, n_crates, 4):
        projs[i] = projects.gen_valid_project(rng, icfg)
    for p in projs:
        add_plural_keys(p, rng)
        add_formatter_keys(p)
        add_literal_keys(p)
    ptable = workload.plural_table_for(projs)
    crates = []
    for i, p in enumerate(projs):
        c = e2e.ProbeCrate("c02_%d" % i, p, fmt="json")
        add_observations(c, p, ptable, rng, max_keys=36 if tier == "quick" else 60)
        if i % 4 == 0:
            add_formatter_observations(c, p, rng)
        crates.append(c)
    root = e2e.write_workspace("c02", crates, seed=seed)
    status, secs, _ = e2e.build_workspace(root, crates)
    res.extra["e2e"] = {"build_s": round(secs, 1), "crates": len(crates), "observations": sum(len(c.obs) for c in crates)}
    for c in crates:
        st = status[c.name]
        if not st["ok"]:
            res.ev()
            res.violation("C02/probe-does-not-compile", "probe crate %s did not compile:\n%s" % (c.name, "\n".join(st["messages"])[:3000]),
                          {"project": gen.project_to_jsonable(c.project), "messages": st["messages"][:5], "root": root})
            continue
        obs, done, rc, err = e2e.run_crate(st["exe"])
        if not done:
            res.inconclusive.append("probe crate %s did not finish (rc=%r): %s" % (c.name, rc, err[-300:]))
        judge(res, c, obs)
    res.assumptions += ["differential oracle only: all flavours are compared with td_string! of the same call",
                        "contexts are created natively with the ssr feature (no browser)"]
    return res.finish(min_events=200)
