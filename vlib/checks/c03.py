"""C03 Missing keys fall back along the inheritance chain, then to default.

Every `inherits` map over 2..4 locales (chains, forks, cycles, self-reference, explicit inheritance
from the default, default listed or not) x random presence patterns {defined, null, absent} per key
and per subkey group. Every value is tagged with its origin so a rendered text identifies the
locale that was actually read."""
import itertools

from .. import e2e, gen, model, pvdump, workload
from ..common import Result, rng_for
from . import c01

RULE = ("all inherits maps for <=4 locales (sampled for 5) x random presence patterns; an evaluation is one (locale, key) "
        "comparison of the locale actually read (default_of / compute() of the real parser, and origin tag in the rendered "
        "text) with the model's effective locale; non-trivial = the key is not defined in the locale itself; distinct by "
        "(inherits map, presence pattern of the key along the chain)")

LOCS = ["en", "fr", "it", "de", "es"]


def all_maps(locales):
    default = locales[0]
    others = locales[1:]
    choices = [[None] + locales for _ in others]
    for combo in itertools.product(*choices):
        yield {l: t for l, t in zip(others, combo) if t is not None}


def tagged(loc, path):
    return {"k": "lit", "ty": "str", "v": "⟨%s:%s⟩" % (loc, ".".join(path))}


def tagged_tmpl(loc, path):
    return {"k": "tmpl", "segs": [{"s": "text", "v": "⟨%s:%s⟩ " % (loc, ".".join(path))}, {"s": "var", "name": "x", "fmt": None}]}


def gen_project(rng, locales, inherits, list_default):
    default = locales[0]
    keys = ["k1", "k2", "k3", "k4"]
    groups = {"g1": ["a", "b"], "g2": ["c"]}
    data = {l: [] for l in locales}
    for k in keys:
        for l in locales:
            r = rng.random()
            if l == default or r < 0.4:
                data[l].append([k, tagged(l, (k,)) if k != "k4" else tagged_tmpl(l, (k,))])
            elif r < 0.65:
                data[l].append([k, {"k": "null"}])
    # references: `$t(k)` where k is defined or null in the same file must read what the key k itself reads there
    for k in keys[:3]:
        for l in locales:
            present = any(name == k for name, _ in data[l])
            if present and (l == default or rng.random() < 0.8):
                data[l].append(["r_" + k, {"k": "tmpl", "segs": [{"s": "text", "v": "via "}, {"s": "fk", "ns": None, "path": [k], "args": None}]}])
    # a key whose own value contains a reference (n1 = "<tag> $t(k1)") and a reference to it: when n1 is left to another locale, the
    # reference inside the borrowed value is resolved where that value comes from
    for l in locales:
        if any(name == "k1" for name, _ in data[l]):
            r = rng.random()
            if l == default or r < 0.5:
                data[l].append(["n1", {"k": "tmpl", "segs": [{"s": "text", "v": "⟨%s:n1⟩ " % l}, {"s": "fk", "ns": None, "path": ["k1"], "args": None}]}])
            elif r < 0.8:
                data[l].append(["n1", {"k": "null"}])
            if any(name == "n1" for name, _ in data[l]) and (l == default or rng.random() < 0.8):
                data[l].append(["r_n1", {"k": "tmpl", "segs": [{"s": "text", "v": "via "}, {"s": "fk", "ns": None, "path": ["n1"], "args": None}]}])
    # a value that resolves to the empty string is still a value: the locale that writes it (and its heirs) read "", not what is further up
    for l in locales:
        data[l].append(["e1", {"k": "lit", "ty": "str", "v": ""}])
        if l == default:
            data[l].append(["re1", tagged(l, ("re1",))])
        elif rng.random() < 0.6:
            data[l].append(["re1", {"k": "tmpl", "segs": [{"s": "fk", "ns": None, "path": ["e1"], "args": None}]}])
    for g, leaves in groups.items():
        for l in locales:
            r = rng.random()
            if l != default and r < 0.2:
                continue                      # whole group absent
            if l != default and r < 0.35:
                data[l].append([g, {"k": "null"}])   # whole group null
                continue
            sub = []
            for leaf in leaves:
                rr = rng.random()
                if l == default or rr < 0.45:
                    sub.append([leaf, tagged(l, (g, leaf))])
                elif rr < 0.7:
                    sub.append([leaf, {"k": "null"}])
            if g == "g1":
                # nested group
                r2 = rng.random()
                if l == default or r2 < 0.5:
                    sub.append(["deep", {"k": "sub", "tree": [["z", tagged(l, (g, "deep", "z"))]] if (l == default or rng.random() < 0.5) else []}])
                elif r2 < 0.7:
                    sub.append(["deep", {"k": "null"}])
            data[l].append([g, {"k": "sub", "tree": sub}])
    listed = list(locales)
    rng.shuffle(listed)
    if not list_default:
        listed.remove(default)
    for l in locales:
        rng.shuffle(data[l])
    return {"cfg": {"default": default, "locales": listed, "namespaces": None, "inherits": inherits, "locales_dir": None},
            "data": {(None, l): data[l] for l in locales}}


def chain_pattern(project, loc, path):
    """presence of the key along the inherits chain (for distinctness counting)."""
    inh = project["cfg"]["inherits"]
    default = project["cfg"]["default"]
    out, cur, seen = [], loc, set()
    while cur not in seen and len(out) < 8:
        seen.add(cur)
        n = model.lookup(project["data"][(None, cur)], path)
        out.append((cur == default, "absent" if n is None else ("null" if n["k"] == "null" else "def")))
        if cur == default:
            break
        cur = inh.get(cur, default)
    return out


def check(res, project, out, sig_extra=""):
    cfg = project["cfg"]
    locales = gen.effective_locales(cfg)
    default = locales[0]
    if out["outcome"] != "ok":
        res.ev()
        res.violation("C03/valid-config-rejected/%s" % (out.get("err_kind") or out["outcome"]),
                      "inherits=%r default=%s listed=%r: %s" % (cfg["inherits"], default, cfg["locales"], out.get("err") or out.get("msg")),
                      {"project": gen.project_to_jsonable(project), "observed": {k: v for k, v in out.items() if k != "bk"}})
        return
    bk = out["bk"]
    tops = {l["top"]: l for l in dict(pvdump.top_locales(bk))[None]}
    for path, _ in model.leaf_paths(project["data"][(None, default)]):
        entry = pvdump.find_key(pvdump.keys_of(bk, None), path)
        for loc in locales:
            res.ev()
            eff = model.effective_locale(project, None, loc, path)
            pv, _ = pvdump.sub_locale_value_at(bk, None, loc, path)
            if pv is None or entry is None:
                res.violation("C03/key-missing-in-dump", "key %s locale %s" % (path, loc), {"project": gen.project_to_jsonable(project)})
                continue
            if pv["t"] == "default":
                read = entry["default_of"].get(loc)
                # compute() must agree with default_of
                comp = [to for to, froms in entry["defaults"].items() if loc in froms]
                if comp != [read]:
                    res.violation("C03/compute-disagrees-with-default_of", "key %s locale %s: compute() says %r, default_of says %r" % (path, loc, comp, read),
                                  {"project": gen.project_to_jsonable(project), "path": path, "locale": loc})
            else:
                read = loc
            if loc != eff:
                res.nontriv([sorted(cfg["inherits"].items()), chain_pattern(project, loc, path)])
            res.count("fallback-hops:%s" % ("self" if eff == loc else ("default" if eff == default else "inherited")))
            text = None
            rpv, _ = pvdump.sub_locale_value_at(bk, None, read, path) if read else (None, None)
            if rpv is not None and rpv["t"] != "default":
                try:
                    text = pvdump.evaluate(rpv, tops[read]["strings"], {"var_x": "X"}, {}, read, None)
                except Exception as e:  # noqa
                    text = "<<%s>>" % e
            want = "⟨%s:%s⟩" % (eff, ".".join(path)) + (" X" if path == ("k4",) else "")
            if path[0] == "e1":
                want = ""
            elif path[0] == "re1":
                want = ("⟨%s:re1⟩" % eff) if eff == default else ""
                res.count("reference-resolving-to-the-empty-string")
            elif path[0] == "n1" or path[0] == "r_n1":
                eff_n = eff if path[0] == "n1" else model.effective_locale(project, None, eff, ("n1",))
                want = ("via " if path[0] == "r_n1" else "") + "⟨%s:n1⟩ ⟨%s:k1⟩" % (eff_n, model.effective_locale(project, None, eff_n, ("k1",)))
                res.count("nested-reference-in-%s-value" % ("own" if eff_n == eff else "borrowed"))
            elif path[0].startswith("r_"):
                k = path[0][2:]
                want = "via ⟨%s:%s⟩" % (model.effective_locale(project, None, eff, (k,)), k)
                res.count("reference-to-%s-key" % ("own" if model.effective_locale(project, None, eff, (k,)) == eff else "inherited"))
            if read != eff or text != want:
                res.violation("C03/wrong-fallback-locale" + sig_extra,
                              "inherits=%r default=%s key=%s locale=%s: value read from %r (text %r), expected from %r (text %r); chain=%r" % (
                                  cfg["inherits"], default, ".".join(path), loc, read, text, eff, want, chain_pattern(project, loc, path)),
                              {"project": gen.project_to_jsonable(project), "path": path, "locale": loc, "read": read, "expected": eff})
            elif loc != eff:
                res.sample({"inherits": cfg["inherits"], "default": default, "locale": loc, "key": ".".join(path),
                            "chain": chain_pattern(project, loc, path), "read_from": read, "text": text})


def negative_cases(res, seed):
    """default locale: null is an error; `inherits` on the default is rejected."""
    rng = rng_for(seed, "C03", "neg")
    projs, kinds = [], []
    for i in range(6):
        p = gen_project(rng, LOCS[:3], {}, True)
        p["data"][(None, "en")].append(["nullkey", {"k": "null"}])
        projs.append(p)
        kinds.append("null-in-default")
    for tgt in ("fr", "it"):
        p = gen_project(rng, LOCS[:3], {"en": tgt}, True)
        projs.append(p)
        kinds.append("default-inherits")
    dirs, _ = workload.materialise(projs, "c03-neg", seed=seed)
    outs = workload.run_projects(dirs, "json")
    for p, kind, o in zip(projs, kinds, outs):
        res.ev()
        res.count("negative:" + kind)
        if o["outcome"] != "err":
            res.violation("C03/" + kind + "-accepted", "%s was not rejected (outcome %s)" % (kind, o["outcome"]),
                          {"project": gen.project_to_jsonable(p)})


def run(tier, seed, replay=None):
    res = Result("C03", tier, seed, RULE)
    rng = rng_for(seed, "C03")
    projs = []
    reps = 2 if tier == "quick" else 40
    for n in (2, 3, 4):
        locs = LOCS[:n]
        for inh in all_maps(locs):
            for _ in range(reps):
                targets_default = "en" in inh.values()
                projs.append(gen_project(rng, locs, inh, list_default=(rng.random() < 0.7)))
    locs5 = LOCS[:5]
    maps5 = list(all_maps(locs5))
    for inh in rng.sample(maps5, 150 if tier == "quick" else len(maps5)):
        projs.append(gen_project(rng, locs5, inh, list_default=rng.random() < 0.7))
    res.extra["projects"] = len(projs)
    res.extra["inherits_maps_exhaustive_up_to_locales"] = 4
    for variant in (("json",) if tier == "quick" else ("json", "json_suppress")):
        dirs, _ = workload.materialise(projs, "c03-" + variant, seed=seed)
        outs = workload.run_projects(dirs, variant)
        for p, o in zip(projs, outs):
            check(res, p, o)
    negative_cases(res, seed)
    # end-to-end: the generated accessors must read the same locale
    sample = rng.sample(projs, 2 if tier == "quick" else 24)
    crates = []
    for i, p in enumerate(sample):
        c = e2e.ProbeCrate("c03_%d" % i, p)
        c01.add_e2e_observations(c, p, None, rng, 1, flavours=("td_string", "td"))
        crates.append(c)
    root = e2e.write_workspace("c03", crates, seed=seed)
    status, secs, _ = e2e.build_workspace(root, crates)
    for c in crates:
        st = status[c.name]
        if not st["ok"]:
            res.ev()
            res.violation("C03/e2e-valid-project-does-not-compile", "crate %s: %s" % (c.name, "\n".join(st["messages"])[:2000]),
                          {"project": gen.project_to_jsonable(c.project)})
            continue
        obs, done, rc, err = e2e.run_crate(st["exe"])
        if not done:
            res.inconclusive.append("probe crate %s did not finish" % c.name)
        c01.judge_e2e(res, c, obs, ("td_string", "td"), prop_sig="C03")
    res.assumptions += ["tagged values: a rendered text identifies the locale it was read from"]
    return res.finish(min_events=2000)
