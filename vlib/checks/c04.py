"""C04 Ranges render the first branch that contains the count.

Monitors: (1) the typed Range list produced by the real parser, evaluated by pvdump for every count
(all 256 values for i8/u8, boundary neighbourhoods otherwise) against model.range_select on the
declared specification; (2) parse-time selection through `$t(key, {"count": n})` for the same counts;
(3) run-time selection in generated code (td_string!/td! with count = n), exhaustive for i8/u8 in a
loop inside the probe crate. Declarations the rules make errors must be rejected."""
import math

from .. import e2e, gen, model, pvdump, rustfmt, workload
from ..common import Result, rng_for
from ..gen import GenCfg, pick

RULE = ("random range declarations over the 10 numeric types in both syntaxes; an evaluation is one (declaration, count, "
        "selection path) comparison where path is parsed-spec / literal-count foreign key / generated code; non-trivial = "
        "declaration has >=2 non-fallback branches; distinct by hash of (type, specs)")

INT_TYPES = ["i8", "i16", "i32", "i64", "u8", "u16", "u32", "u64"]


def branch_segs(i):
    return [{"s": "text", "v": "b%d:" % i}, {"s": "var", "name": "count", "fmt": None}]


def gen_decl(rng, ty, cover=False):
    cfg = GenCfg()
    rty = ty or "i32"
    if cover and rty in ("i8", "u8"):
        lo, hi = rustfmt.INT_BOUNDS[rty]
        cut1 = rng.randint(lo + 1, hi - 2)
        cut2 = rng.randint(cut1 + 1, hi - 1)
        brs = [{"specs": [{"r": "bounds", "start": None, "end": cut1, "incl": False}], "segs": branch_segs(0)},
               {"specs": [{"r": "bounds", "start": cut1, "end": cut2, "incl": True}], "segs": branch_segs(1)},
               {"specs": [{"r": "bounds", "start": cut2 + 1, "end": None, "incl": False}], "segs": branch_segs(2)}]
        if rng.random() < 0.5:
            brs[0]["specs"] = [{"r": "bounds", "start": lo, "end": cut1 - 1, "incl": True}]
        return {"k": "range", "ty": ty, "branches": brs}
    node = gen.gen_range(rng, cfg, ty=ty)
    for i, br in enumerate(node["branches"]):
        br["segs"] = branch_segs(i)
    return node


def ladder_decl(rng, ty):
    """Disjoint ascending branches holding every spec shape once (..=a, a..b, a..=b, exact | a..=b, a..), so that each
    end point of each shape is decided by exactly one branch and nothing before or after it masks a wrong comparison."""
    rty = ty or "i32"
    if rty.startswith("f"):
        # dyadic values, or tenths (not exactly representable in f32: 0.1, 0.3, ...)
        dyadic, tenths = [(-7.5, 0.5), (-1.0, 1.0), (0.0, 2.5), (0.25, 0.5), (2.0, 1.0)], [(0.1, 0.2), (-0.7, 0.2), (1.3, 0.4)]
        base, step = pick(rng, tenths if rty == "f64" else dyadic + tenths)
        c = [round(base + i * step, 4) for i in range(9)]
        gap = round(step / 2, 4)
    else:
        lo, hi = rustfmt.INT_BOUNDS[rty]
        step = rng.randint(2, 5)
        base = rng.randint(max(lo + 1, -40), min(hi - 9 * step - 2, 40))
        c = [base + i * step for i in range(9)]
        gap = 1
    shapes = [[{"r": "bounds", "start": None, "end": c[0], "incl": True}],
              [{"r": "bounds", "start": round(c[0] + gap, 4) if rty.startswith("f") else c[0] + gap, "end": c[1], "incl": False}],
              [{"r": "bounds", "start": c[1], "end": c[2], "incl": True}],
              [{"r": "exact", "v": c[3]}, {"r": "bounds", "start": c[4], "end": c[5], "incl": True}, {"r": "exact", "v": round(c[5] + gap, 4) if rty.startswith("f") else c[5] + gap}],
              [{"r": "bounds", "start": c[6], "end": c[7], "incl": False}],
              [{"r": "bounds", "start": c[8], "end": None, "incl": False}]]
    if rng.random() < 0.5:
        shapes[0] = [{"r": "bounds", "start": None, "end": c[0], "incl": False}]
    # branches that contain exactly one value written as bounds: `x..=x` (x = the excluded end of the previous branch), and for
    # the integer types `y..y+1`
    shapes.insert(5, [{"r": "bounds", "start": c[7], "end": c[7], "incl": True}])
    if not rty.startswith("f"):
        shapes.insert(3, [{"r": "bounds", "start": c[2] + 1, "end": c[2] + 2, "incl": False}])
    if rty.startswith("f") or rty.startswith("i"):
        # an exact negative count first, written as an integer literal (also for the float types)
        shapes.insert(0, [{"r": "exact", "v": (float if rty.startswith("f") else int)(min(int(c[0]) - rng.randint(3, 20), -1)), "form": "int"}])
        if rty == "i8":
            shapes[0][0]["v"] = max(shapes[0][0]["v"], -128)
    brs = [{"specs": sp, "segs": branch_segs(i)} for i, sp in enumerate(shapes)]
    for br in brs:
        if len(br["specs"]) >= 3:
            # written as a list whose second element is a `|` string: ["..", c3, "c4..=c5 | x"]
            br["style"], br["mixed"] = "seq", True
    brs.append({"specs": None, "fb": pick(rng, ["_", ".."]), "segs": branch_segs(len(brs))})
    return {"k": "range", "ty": ty, "branches": brs}


def counts_for(node, rng, exhaustive_small=True):
    ty = node["ty"] or "i32"
    if ty in ("i8", "u8") and exhaustive_small:
        lo, hi = rustfmt.INT_BOUNDS[ty]
        return list(range(lo, hi + 1))
    rn = [("range", ty, "count", [(br["specs"], []) for br in node["branches"]])]
    vals = workload.boundary_counts(rn, "count", ty, rng)
    if ty.startswith("f"):
        conv = rustfmt.to_f32 if ty == "f32" else float
        extra = [conv(v) for v in (0.0, -0.0, 0.1, 1e-7, 3.5, 1e20, -1e20, float("inf"), float("-inf"), float("nan"))]
        for sp in [s for br in node["branches"] for s in (br["specs"] or [])]:
            for x in ([sp["v"]] if sp["r"] == "exact" else [sp["start"], sp["end"]]):
                if x is not None:
                    extra += [conv(math.nextafter(conv(x), math.inf)), conv(math.nextafter(conv(x), -math.inf))]
        vals = sorted(set(vals + [v for v in extra if not math.isnan(v)])) + [float("nan")]
    else:
        lo, hi = rustfmt.INT_BOUNDS[ty]
        vals = sorted(set(vals + [rng.randint(lo, hi) for _ in range(16)]))
    return vals


def fk_count_arg(ty, n):
    if ty.startswith("f"):
        return {"a": "float", "v": float(n)}
    return {"a": "int", "v": int(n)}


def build_project(rng, decls, with_fk_counts):
    """decls: list of (key, node). FK keys `<key>_c<i>` fix the count in the file."""
    tree = []
    fks = {}
    for key, node in decls:
        tree.append([key, node])
        ty = node["ty"] or "i32"
        for i, n in enumerate(with_fk_counts.get(key, [])):
            if isinstance(n, float) and (math.isnan(n) or math.isinf(n)):
                continue
            # the book warns that float literals in a file may lose digits when deserialised: keep the
            # fixed-in-file float counts to short decimals (run-time counts are not restricted)
            if isinstance(n, float) and (float("%.6g" % n) != n or abs(n) >= 1e15 or (n != 0 and abs(n) < 1e-4)):
                continue
            fk = key + "_c%d" % i
            fks[(key, n)] = fk
            tree.append([fk, {"k": "tmpl", "segs": [{"s": "fk", "ns": None, "path": [key], "args": [["count", fk_count_arg(ty, n)]]}]}])
    rng.shuffle(tree)
    return {"cfg": {"default": "en", "locales": ["en"], "namespaces": None, "inherits": {}, "locales_dir": None},
            "data": {(None, "en"): tree}}, fks


def expected_text(node, n):
    ty = node["ty"] or "i32"
    i = model.range_select(node, n)
    return i, "b%d:%s" % (i, rustfmt.display_count(ty, n))


def fk_expected_text(node, n):
    ty = node["ty"] or "i32"
    # a count fixed in a file is a double; against an f32 range it is compared as an f32 (like the bounds, which are parsed as f32)
    i = model.range_select(node, rustfmt.to_f32(n) if ty == "f32" else n)
    disp = rustfmt.f64_display(float(n)) if ty.startswith("f") else str(int(n))
    return "b%d:%s" % (i, disp)


def parser_stage(res, tier, seed):
    rng = rng_for(seed, "C04", "P")
    nproj = 60 if tier == "quick" else 3000
    projs, metas = [], []
    for pi in range(nproj):
        decls, fkc = [], {}
        for j in range(4):
            ty = pick(rng, [None] + gen.RANGE_TYPES)
            if pi % 3 == 0 and j == 0:
                ty = pick(rng, ["i8", "u8"])
            node = gen_decl(rng, ty, cover=(rng.random() < 0.15))
            key = "r%d" % j
            decls.append((key, node))
            cs = counts_for(node, rng)
            # literal counts in the file: the whole domain for one small-type range per project, a sample otherwise
            if (ty in ("i8", "u8")) and j == 0:
                fkc[key] = cs
            else:
                fkc[key] = rng.sample(cs, min(len(cs), 10))
        p, fks = build_project(rng, decls, fkc)
        projs.append(p)
        metas.append((decls, fks))
    dirs, _ = workload.materialise(projs, "c04", seed=seed)
    outs = workload.run_projects(dirs, "json")
    exhaustive_domains = 0
    for p, (decls, fks), out in zip(projs, metas, outs):
        if out["outcome"] != "ok":
            res.ev()
            res.violation("C04/valid-declaration-rejected/" + str(out.get("err_kind") or out["outcome"]),
                          "valid range project not loaded: %s" % (out.get("err") or out.get("msg") or out),
                          {"project": gen.project_to_jsonable(p)})
            continue
        bk = out["bk"]
        loc = bk["locales"][0]
        vals = dict((k, v) for k, v in loc["keys"])
        for key, node in decls:
            ty = node["ty"] or "i32"
            pv = vals[key]
            nb = len([b for b in node["branches"] if b["specs"] is not None])
            cs = counts_for(node, rng)
            if ty in ("i8", "u8"):
                exhaustive_domains += 1
            for n in cs:
                res.ev()
                i, want = expected_text(node, n)
                try:
                    got = pvdump.evaluate(pv, loc["strings"], {}, {"var_count": (ty, n)}, "en", None)
                except pvdump.DumpError as e:
                    got = "<<%s>>" % e
                if got != want:
                    res.violation("C04/parsed-spec-selects-other-branch/%s" % ty,
                                  "type=%s count=%r expected %r got %r\n  declared: %s" % (ty, n, want, got, node["branches"]),
                                  {"project": gen.project_to_jsonable(p), "key": key, "count": repr(n), "expected": want, "observed": got})
            if nb >= 2:
                res.nontriv([ty, [b["specs"] for b in node["branches"]]])
            res.count("type:" + ty)
        for (key, n), fk in fks.items():
            node = dict(decls)[key]
            res.ev()
            want = fk_expected_text(node, n)
            pv = vals.get(fk)
            try:
                got = pvdump.evaluate(pv, loc["strings"], {}, {}, "en", None)
            except Exception as e:  # noqa
                got = "<<%s>>" % e
            res.count("literal-count-fk")
            if got != want:
                res.violation("C04/literal-count-selects-other-branch/%s" % (node["ty"] or "i32"),
                              "type=%s literal count=%r expected %r got %r\n  declared: %s" % (node["ty"], n, want, got, node["branches"]),
                              {"project": gen.project_to_jsonable(p), "key": key, "fk": fk, "count": repr(n), "expected": want, "observed": got})
            elif len(res.samples) < 4:
                res.sample({"type": node["ty"] or "i32", "specs": [b["specs"] for b in node["branches"]], "literal_count": n, "text": got})
    res.extra["small_type_domains_enumerated"] = exhaustive_domains


NEGATIVE = [
    ("InvalidBoundEnd", ["u8", ["a", "..0"], ["b", "_"]]),
    ("InvalidBoundEnd", ["i8", ["a", "0..-128"], ["b", "_"]]),
    ("ImpossibleRange", [["a", "5..3"], ["b", "_"]]),
    ("ImpossibleRange", [["a", "5..5"], ["b", "_"]]),
    ("ImpossibleRange", [["a", "5..=4"], ["b", "_"]]),
    ("ImpossibleRange", ["f64", ["a", "1.5..=1.0"], ["b", "_"]]),
    ("MissingFallback", ["f32", ["a", "0.0..1.0"], ["b", "1.0.."]]),
    ("MissingFallback", ["f64", ["a", 0.5]]),
    ("InvalidFallback", [["a", "_"], ["b", 1]]),
    ("MultipleFallbacks", [["a", 1], ["b", "_"], ["c", "_"]]),
    ("RangeParse", ["u8", ["a", 0], ["b", "300"], ["c", "_"]]),
    ("RangeParse", ["u8", ["a", "-1"], ["c", "_"]]),
    ("RangeNumberType", ["u8", ["a", -1], ["c", "_"]]),
    ("RangeNumberType", ["i32", ["a", 1.5], ["c", "_"]]),
    ("RangeNumberType", ["i8", ["a", 200], ["c", "_"]]),
    ("InvalidRangeType", ["u128", ["a", 1], ["c", "_"]]),
    ("EmptyRange", []),
    ("NestedRanges", [[["x", 1], 0], ["b", "_"]]),
    ("RangeSubkeys", [[{"sub": "x"}, 0], ["b", "_"]]),
]
NEGATIVE_FK = [
    ("InvalidCountArgType", ["f32", ["a", "0.0..1.0"], ["b", "_"]], 1),
    ("InvalidCountArgType", ["u8", ["a", "0..10"], ["b", "_"]], 1.5),
    ("CountArgOutsideRange", ["u8", ["a", "0..10"], ["b", "_"]], 300),
    ("CountArgOutsideRange", ["u8", ["a", "0..10"], ["b", "_"]], -1),
    ("CountArgOutsideRange", ["i8", ["a", "0..10"], ["b", "_"]], 128),
    ("InvalidCountArg", ["u8", ["a", "0..10"], ["b", "_"]], True),
    ("InvalidCountArg", ["u8", ["a", "0..10"], ["b", "_"]], "x {{ y }}"),
]


def negative_stage(res, seed):
    projs, kinds = [], []
    for kind, raw in NEGATIVE:
        projs.append({"cfg": {"default": "en", "locales": ["en"], "namespaces": None, "inherits": {}, "locales_dir": None},
                      "data": {(None, "en"): [["r", {"k": "raw", "v": raw}]]}})
        kinds.append(kind)
    for kind, raw, count in NEGATIVE_FK:
        import json as _json
        projs.append({"cfg": {"default": "en", "locales": ["en"], "namespaces": None, "inherits": {}, "locales_dir": None},
                      "data": {(None, "en"): [["r", {"k": "raw", "v": raw}],
                                              ["f", {"k": "raw", "v": "$t(r, %s)" % _json.dumps({"count": count})}]]}})
        kinds.append(kind)
    dirs, _ = workload.materialise(projs, "c04-neg", seed=seed)
    outs = workload.run_projects(dirs, "json")
    for p, kind, o in zip(projs, kinds, outs):
        res.ev()
        res.count("negative:" + kind)
        text = o.get("err", "")
        if o["outcome"] != "err":
            res.violation("C04/invalid-declaration-accepted/" + kind, "declaration that the rules make a %s error gave outcome %s (%s)" % (
                kind, o["outcome"], o.get("msg", "")), {"project": gen.project_to_jsonable(p)})
        elif not text.strip():
            res.violation("C04/empty-error-message/" + kind, "error without message", {"project": gen.project_to_jsonable(p)})


def e2e_stage(res, tier, seed):
    rng = rng_for(seed, "C04", "E")
    ncrates = 1 if tier == "quick" else 12
    crates = []
    for ci in range(ncrates):
        decls, fkc = [], {}
        types = ["i8", "u8"] + [pick(rng, [None] + gen.RANGE_TYPES) for _ in range(8 if tier == "quick" else 14)]
        for j, ty in enumerate(types):
            node = gen_decl(rng, ty, cover=(j < 2 and rng.random() < 0.5))
            decls.append(("r%d" % j, node))
            cs = counts_for(node, rng)
            fkc["r%d" % j] = rng.sample(cs, min(len(cs), 6))
        # every range type once more as a ladder of disjoint branches with every spec shape
        for j, ty in enumerate(gen.RANGE_TYPES + [None], start=len(types)):
            node = ladder_decl(rng, ty)
            decls.append(("r%d" % j, node))
            # counts fixed through a reference: every exact value and every end point of the ladder
            ends = []
            for br in node["branches"]:
                for sp in (br["specs"] or []):
                    ends += [sp["v"]] if sp["r"] == "exact" else [x for x in (sp["start"], sp["end"]) if x is not None]
            cs = counts_for(node, rng)
            fkc["r%d" % j] = sorted(set(ends)) + rng.sample(cs, min(len(cs), 4))
        p, fks = build_project(rng, decls, fkc)
        c = e2e.ProbeCrate("c04_%d" % ci, p)
        for key, node in decls:
            ty = node["ty"] or "i32"
            cs = counts_for(node, rng)
            oid = c.next_id
            if ty in ("i8", "u8"):
                body = ('    for n in %s::MIN..=%s::MAX { emit(%d, &format!("s{}", n), &td_string!(Locale::en, %s, count = n).to_string()); }\n'
                        '    for n in %s::MIN..=%s::MAX { emit(%d, &format!("v{}", n), &html(td!(Locale::en, %s, count = move || n))); }' % (
                            ty, ty, oid, key, ty, ty, oid, key))
                labels = [str(n) for n in cs]
            else:
                arr = ", ".join(e2e.count_literal(ty, n) for n in cs)
                body = ('    let cs: Vec<%s> = vec![%s];\n'
                        '    for (i, n) in cs.iter().copied().enumerate() { emit(%d, &format!("s{}", i), &td_string!(Locale::en, %s, count = n).to_string()); }\n'
                        '    for (i, n) in cs.iter().copied().enumerate() { emit(%d, &format!("v{}", i), &html(td!(Locale::en, %s, count = move || n))); }' % (
                            ty, arr, oid, key, oid, key))
                labels = [str(i) for i in range(len(cs))]
            c.add(body, {"key": key, "node": node, "counts": cs, "labels": labels, "kind": "runtime"})
        for (key, n), fk in fks.items():
            oid = c.next_id
            c.add('    emit(%d, "s", &td_string!(Locale::en, %s).to_string());' % (oid, fk),
                  {"key": key, "node": dict(decls)[key], "count": n, "kind": "fk"})
        crates.append(c)
    root = e2e.write_workspace("c04", crates, seed=seed)
    status, secs, _ = e2e.build_workspace(root, crates)
    res.extra["e2e"] = {"build_s": round(secs, 1), "crates": len(crates)}
    for c in crates:
        st = status[c.name]
        if not st["ok"]:
            res.ev()
            res.violation("C04/e2e-valid-declarations-do-not-compile", "crate %s: %s" % (c.name, "\n".join(st["messages"])[:3000]),
                          {"project": gen.project_to_jsonable(c.project)})
            continue
        obs, done, rc, err = e2e.run_crate(st["exe"])
        if not done:
            res.inconclusive.append("probe crate %s did not finish (rc=%r) %s" % (c.name, rc, err[-200:]))
        for oid, exp in c.expect.items():
            got = obs.get(oid, {})
            node = exp["node"]
            ty = node["ty"] or "i32"
            if exp["kind"] == "fk":
                res.ev()
                want = fk_expected_text(node, exp["count"])
                o = got.get("s") or got.get("*") or {}
                text = o.get("v", "<<%s>>" % o.get("panic", "missing"))
                res.count("e2e:literal-count-fk")
                if text != want:
                    res.violation("C04/e2e-literal-count-selects-other-branch/%s" % ty, "type=%s count=%r expected %r got %r specs=%s" % (
                        ty, exp["count"], want, text, node["branches"]), {"project": gen.project_to_jsonable(c.project), "key": exp["key"]})
                continue
            for n, lab in zip(exp["counts"], exp["labels"]):
                _, want = expected_text(node, n)
                for fl in ("s", "v"):
                    res.ev()
                    o = got.get(fl + lab) or got.get("*") or {}
                    text = o.get("v", "<<%s>>" % o.get("panic", "missing"))
                    if fl == "v":
                        text = e2e.normalise_html(text)
                    res.count("e2e:runtime-" + ("string" if fl == "s" else "view"))
                    if text != want:
                        res.violation("C04/e2e-runtime-selects-other-branch/%s/%s" % (ty, fl), "type=%s count=%r flavour=%s expected %r got %r specs=%s" % (
                            ty, n, fl, want, text, node["branches"]), {"project": gen.project_to_jsonable(c.project), "key": exp["key"], "count": repr(n)})
            if ty in ("i8", "u8"):
                res.extra["e2e"]["small_type_domains_enumerated"] = res.extra["e2e"].get("small_type_domains_enumerated", 0) + 1


def run(tier, seed, replay=None):
    res = Result("C04", tier, seed, RULE)
    parser_stage(res, tier, seed)
    negative_stage(res, seed)
    e2e_stage(res, tier, seed)
    res.extra["exhaustive"] = False
    res.extra["exhaustive_subspaces"] = "all 256 counts of every i8/u8 declaration generated (parsed spec, literal-count FK for one per project, generated code)"
    res.assumptions += ["Python ints / IEEE doubles rounded to f32 as the reference for Rust comparison semantics"]
    return res.finish(min_events=5000)
