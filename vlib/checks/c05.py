"""C05 Plural forms are selected by the locale's CLDR plural rules.

Oracle for "what CLDR assigns": ICU4X itself (PluralRules evaluated by the probe, independent of the
code under test), guarded by a hand-written anchor table. Monitors: merged Plurals nodes and
UnusedForm warnings of the real parser; parse-time selection through `$t(key, {"count": n})`;
run-time selection in generated code for counts 0..=200 and large operands; td_plural!."""
import itertools

from .. import e2e, gen, model, probe, pvdump, workload
from ..common import Result, rng_for, Inconclusive
from ..gen import FORMS, pick

RULE = ("plural groups with random form subsets containing `other`, cardinal/ordinal, over locales spanning the CLDR "
        "category patterns; an evaluation is one (locale, rule, forms, count, path) comparison, path = merged node / "
        "literal-count foreign key / generated code / td_plural!; non-trivial = >=2 forms besides `other`; distinct by "
        "(locale, rule, form subset)")

LOCALES = ["en", "fr", "ru", "ar", "pl", "ja", "cy", "he", "lt", "lv", "ga", "sl", "cs", "ro", "pt", "de", "pt-PT", "fr-CA", "en-GB"]

ANCHORS = [
    ("en", "cardinal", {"0": "other", "1": "one", "2": "other", "11": "other", "21": "other"}),
    ("en", "ordinal", {"1": "one", "2": "two", "3": "few", "4": "other", "11": "other", "12": "other", "13": "other", "21": "one", "22": "two", "23": "few", "101": "one"}),
    ("fr", "cardinal", {"0": "one", "1": "one", "2": "other", "1000000": "many"}),
    ("fr", "ordinal", {"1": "one", "2": "other"}),
    ("pt", "cardinal", {"0": "one", "1": "one", "2": "other"}),
    ("pt-PT", "cardinal", {"0": "other", "1": "one", "2": "other"}),
    ("ru", "cardinal", {"1": "one", "2": "few", "5": "many", "11": "many", "21": "one", "22": "few", "25": "many"}),
    ("ar", "cardinal", {"0": "zero", "1": "one", "2": "two", "3": "few", "11": "many", "100": "other"}),
    ("pl", "cardinal", {"1": "one", "2": "few", "5": "many", "12": "many", "22": "few"}),
    ("ja", "cardinal", {"0": "other", "1": "other", "2": "other"}),
    ("cy", "cardinal", {"0": "zero", "1": "one", "2": "two", "3": "few", "6": "many", "4": "other"}),
]

RT_COUNTS = list(range(0, 201)) + [1000, 1000000, 1000001, 18446744073709551615]
# the count may be any integer type: signed ones (negative counts select by absolute value in ICU4X; the oracle is asked the
# same question) and narrow ones, at their extremes
TYPED_COUNTS = [("i8", [0, 1, 2, 3, 5, 11, 21, 22, 100, 127, -1, -2, -5, -21, -128]), ("u8", [0, 1, 2, 3, 11, 21, 101, 255]),
                ("i16", [1, 2, 21, -3, -11, -101]), ("u16", [0, 1, 2, 65535]), ("i32", [0, 1, 2, 5, 1000000, 2147483647, -1, -22, -2147483648]),
                ("u32", [0, 1, 3, 23, 1000001]), ("i64", [1, 2, 9223372036854775807, -1, -5, -9223372036854775808]),
                ("usize", [0, 1, 2, 4, 111, 1000]), ("isize", [1, -1, -2, 12])]


def check_anchors(table):
    for loc, rule, m in ANCHORS:
        for n, cat in m.items():
            got = table[loc][rule]["cat"][n]
            if got != cat:
                raise Inconclusive("plural oracle wired wrong: %s %s %s -> %s, anchor says %s" % (loc, rule, n, got, cat))


def form_segs(form):
    return [{"s": "text", "v": "⟨%s⟩" % form}, {"s": "var", "name": "count", "fmt": None}]


def gen_project(rng, locales, nkeys, fk_counts):
    default = locales[0]
    data = {l: [] for l in locales}
    meta = {}
    for ki in range(nkeys):
        key = "p%d" % ki
        for l in locales:
            rule = "ordinal" if rng.random() < 0.35 else "cardinal"
            while True:
                forms = [f for f in FORMS[:-1] if rng.random() < 0.45]
                if forms:
                    break
            meta[(key, l)] = (rule, forms)
            data[l].append([key, {"k": "plural", "rule": rule, "forms": {**{f: form_segs(f) for f in forms}, "other": form_segs("other")}}])
            for i, n in enumerate(fk_counts if l in locales[:3] else []):
                arg = {"a": "float", "v": n} if isinstance(n, float) else {"a": "int", "v": n}
                data[l].append(["%s_c%d" % (key, i), {"k": "tmpl", "segs": [{"s": "fk", "ns": None, "path": [key], "args": [["count", arg]]}]}])
        for l in locales:
            rng.shuffle(data[l])
    return {"cfg": {"default": default, "locales": list(locales), "namespaces": None, "inherits": {}, "locales_dir": None},
            "data": {(None, l): data[l] for l in locales}}, meta


FK_COUNTS = [0, 1, 2, 3, 5, 11, 21, 100, 1000000, -1, 1.5, 1.0, 0.0, 2.0, 0.5]


def expected_form(table, loc, rule, forms, nkey):
    cat = table[loc][rule]["cat"][nkey]
    return cat if cat in forms else "other"


def parser_stage(res, tier, seed, table):
    rng = rng_for(seed, "C05", "P")
    nproj = 40 if tier == "quick" else 2000
    projs, metas = [], []
    for _ in range(nproj):
        locs = rng.sample(LOCALES, rng.randint(2, 5))
        p, meta = gen_project(rng, locs, 3, FK_COUNTS)
        projs.append(p)
        metas.append(meta)
    dirs, _ = workload.materialise(projs, "c05", seed=seed, surface_kw={"plain": True})
    outs = workload.run_projects(dirs, "json")
    for p, meta, out in zip(projs, metas, outs):
        if out["outcome"] != "ok":
            res.ev()
            res.violation("C05/valid-plural-project-rejected/" + str(out.get("err_kind") or out["outcome"]),
                          "%s" % (out.get("err") or out.get("msg")), {"project": gen.project_to_jsonable(p)})
            continue
        bk = out["bk"]
        tops = {l["top"]: l for l in bk["locales"]}
        exp_warn = []
        for (key, loc), (rule, forms) in meta.items():
            cats = set(table[loc][rule]["categories"])
            for f in forms:
                if f not in cats:
                    exp_warn.append((loc, key, f, rule))
            top = tops[loc]
            pv = dict((k, v) for k, v in top["keys"]).get(key)
            res.ev()
            if pv is None or pv["t"] != "plurals" or pv["rule"] != rule or sorted(pv["forms"]) != sorted(forms):
                res.violation("C05/forms-not-merged-as-declared", "locale=%s key=%s declared rule=%s forms=%s, parser has %s" % (
                    loc, key, rule, forms, None if pv is None else (pv["t"], pv.get("rule"), sorted(pv.get("forms", {})))),
                    {"project": gen.project_to_jsonable(p), "key": key, "locale": loc})
                continue
            surplus = [k for k, _ in top["keys"] if k.startswith(key + "_") and not k.startswith(key + "_c")]
            if surplus:
                res.violation("C05/suffixed-keys-left-unmerged", "locale=%s: %s" % (loc, surplus), {"project": gen.project_to_jsonable(p)})
            if len(forms) >= 2:
                res.nontriv([loc, rule, sorted(forms)])
            for n in RT_COUNTS[:-1]:
                res.ev()
                want = "⟨%s⟩%d" % (expected_form(table, loc, rule, forms, str(n)), n)
                got = pvdump.evaluate(pv, top["strings"], {}, {"var_count": ("u64", n)}, loc, table)
                if got != want:
                    res.violation("C05/merged-node-renders-other-form", "locale=%s rule=%s forms=%s count=%d: expected %r got %r" % (
                        loc, rule, forms, n, want, got), {"project": gen.project_to_jsonable(p), "key": key, "locale": loc, "count": n})
                    break
            res.count("rule:" + rule)
            # parse-time selection
            if loc in list(tops)[:3]:
                vals = dict((k, v) for k, v in top["keys"])
                for i, n in enumerate(FK_COUNTS):
                    res.ev()
                    nkey = model.lit_count_key(("lit", "float" if isinstance(n, float) else "int", n))
                    disp = model.lit_display("float" if isinstance(n, float) else "int", n)
                    want = "⟨%s⟩%s" % (expected_form(table, loc, rule, forms, nkey), disp)
                    fpv = vals.get("%s_c%d" % (key, i))
                    try:
                        got = pvdump.evaluate(fpv, top["strings"], {}, {}, loc, table)
                    except Exception as e:  # noqa
                        got = "<<%s>>" % e
                    res.count("literal-count-fk")
                    if got != want:
                        res.violation("C05/literal-count-selects-other-form", "locale=%s rule=%s forms=%s literal count=%r: expected %r got %r" % (
                            loc, rule, forms, n, want, got), {"project": gen.project_to_jsonable(p), "key": key, "locale": loc, "count": n})
                    else:
                        res.sample({"locale": loc, "rule": rule, "forms": forms, "literal_count": n, "text": got}, limit=4)
        got_warn = sorted((w["locale"], w["path"], w["form"], w["rule"]) for w in out["warnings"] if w["k"] == "unused_form")
        res.ev()
        if got_warn != sorted(exp_warn):
            res.violation("C05/unused-form-warnings-differ", "expected %s\n  got      %s" % (sorted(exp_warn), got_warn),
                          {"project": gen.project_to_jsonable(p)})
        res.count("unused-form-warnings", len(exp_warn))


def negative_stage(res, seed):
    base = {"cfg": {"default": "en", "locales": ["en"], "namespaces": None, "inherits": {}, "locales_dir": None}}
    cases = [
        ("mixed-rule-types", {"k_one": "a", "k_ordinal_two": "b", "k_other": "c"}),
        ("mixed-rule-types", {"k_ordinal_one": "a", "k_two": "b", "k_ordinal_other": "c"}),
        ("mixed-rule-types", {"k_one": "a", "k_ordinal_one": "b", "k_other": "c"}),
        ("mixed-rule-types", {"k_ordinal_one": "a", "k_one": "b", "k_ordinal_other": "c"}),
        ("mixed-rule-types", {"k_one": "a", "k_other": "c", "k_ordinal_other": "d"}),
        ("mixed-rule-types", {"k_ordinal_one": "a", "k_other": "c", "k_ordinal_other": "d"}),
        ("collides-with-key", {"k_one": "a", "k_other": "c", "k": "plain"}),
        ("collides-with-key", {"k_ordinal_one": "a", "k_ordinal_other": "c", "k": {"sub": "x"}}),
        ("collides-with-key", {"s": {"k_one": "a", "k_other": "c", "k": "plain"}}),
    ]
    projs = []
    for kind, raw in cases:
        p = dict(base)
        p["data"] = {(None, "en"): [[k, {"k": "raw", "v": v}] for k, v in raw.items()]}
        projs.append(p)
    dirs, _ = workload.materialise(projs, "c05-neg", seed=seed)
    outs = workload.run_projects(dirs, "json")
    for (kind, raw), p, o in zip(cases, projs, outs):
        res.ev()
        res.count("negative:" + kind)
        if o["outcome"] != "err":
            res.violation("C05/%s-accepted" % kind, "keys %s were accepted (outcome %s); resulting keys: %s" % (
                sorted(raw), o["outcome"], [k for k, _ in o.get("bk", {}).get("locales", [{}])[0].get("keys", [])] if o["outcome"] == "ok" else o.get("msg")),
                {"project": gen.project_to_jsonable(p), "keys": sorted(raw)})


def e2e_stage(res, tier, seed, table):
    rng = rng_for(seed, "C05", "E")
    ncrates = 1 if tier == "quick" else 8
    crates = []
    counts_arr = ", ".join("%du64" % n for n in RT_COUNTS)
    for ci in range(ncrates):
        locs = rng.sample([l for l in LOCALES if "-" not in l], 6 if tier == "quick" else 10) + ["pt-PT", "fr-CA"]
        p, meta = gen_project(rng, locs, 3 if tier == "quick" else 5, [])
        # keys written by the default locale only, with all six forms: every other locale renders them with *its own* rules
        # ("for every locale and count the form rendered is the one CLDR assigns to that count for that locale")
        for rule in ("cardinal", "ordinal"):
            key = "inh_" + rule[:3]
            p["data"][(None, locs[0])].append([key, {"k": "plural", "rule": rule, "forms": {f: form_segs(f) for f in FORMS}}])
            for l in locs:
                meta[(key, l)] = (rule, list(FORMS[:-1]))
        c = e2e.ProbeCrate("c05_%d" % ci, p)
        for (key, loc), (rule, forms) in meta.items():
            oid = c.next_id
            lv = "Locale::" + e2e.ident(loc)
            body = ('    let cs: Vec<u64> = vec![%s];\n'
                    '    for n in cs.iter().copied() { emit(%d, &format!("s{}", n), &td_string!(%s, %s, count = n).to_string()); }\n'
                    '    for n in cs.iter().copied() { emit(%d, &format!("v{}", n), &html(td!(%s, %s, count = move || n))); }' % (
                        counts_arr, oid, lv, key, oid, lv, key))
            c.add(body, {"kind": "key", "key": key, "locale": loc, "rule": rule, "forms": forms})
            ty, vals = TYPED_COUNTS[(oid + ci) % len(TYPED_COUNTS)]
            oid = c.next_id
            arr = ", ".join(e2e.count_literal(ty, n) for n in vals)
            body = ('    let cs: Vec<%s> = vec![%s];\n'
                    '    for n in cs.iter().copied() { emit(%d, &format!("s{}", n), &td_string!(%s, %s, count = n).to_string()); }\n'
                    '    for n in cs.iter().copied() { emit(%d, &format!("v{}", n), &html(td!(%s, %s, count = move || n))); }' % (
                        ty, arr, oid, lv, key, oid, lv, key))
            c.add(body, {"kind": "key", "key": key, "locale": loc, "rule": rule, "forms": forms, "counts": vals, "type": ty})
        for loc in locs:
            for rule, mac in (("cardinal", "td_plural"), ("ordinal", "td_plural_ordinal")):
                oid = c.next_id
                lv = "Locale::" + e2e.ident(loc)
                body = ('    let cs: Vec<u64> = vec![%s];\n'
                        '    for n in cs.iter().copied() { let v = leptos_i18n::%s!(%s, count = move || n, zero => "zero", one => "one", two => "two", few => "few", many => "many", _ => "other"); '
                        'emit(%d, &format!("c{}", n), v); }' % (counts_arr, mac, lv, oid))
                c.add(body, {"kind": "t_plural", "locale": loc, "rule": rule})
            # the context-taking members of the family, and a call with a subset of the arms in another order
            for rule, mac, call in (("cardinal", "t_plural", True), ("cardinal", "tu_plural", False), ("ordinal", "t_plural_ordinal", True), ("ordinal", "tu_plural_ordinal", False)):
                oid = c.next_id
                lv = "Locale::" + e2e.ident(loc)
                body = ('    let cs: Vec<u64> = vec![%s];\n'
                        '    with_ctx(%s, |i18n| { for n in cs.iter().copied() { let v = leptos_i18n::%s!(i18n, count = move || n, zero => "zero", one => "one", two => "two", few => "few", many => "many", _ => "other"); '
                        'emit(%d, &format!("c{}", n), %s); } });' % (counts_arr, lv, mac, oid, "v()" if call else "v"))
                c.add(body, {"kind": "t_plural", "locale": loc, "rule": rule, "macro": mac})
            arms = rng.sample(["zero", "one", "two", "few", "many"], rng.randint(1, 3))
            order = arms + ["_"]
            rng.shuffle(order)
            arms_src = ", ".join(('_ => "rest"' if a == "_" else '%s => "%s"' % (a, a)) for a in order)
            for rule, mac in (("cardinal", "td_plural"), ("ordinal", "td_plural_ordinal")):
                oid = c.next_id
                body = ('    let cs: Vec<u64> = vec![%s];\n'
                        '    for n in cs.iter().copied() { let v = leptos_i18n::%s!(%s, count = move || n, %s); emit(%d, &format!("c{}", n), v); }' % (
                            counts_arr, mac, "Locale::" + e2e.ident(loc), arms_src, oid))
                c.add(body, {"kind": "t_plural", "locale": loc, "rule": rule, "macro": mac + ":subset", "arms": arms})
        crates.append(c)
    root = e2e.write_workspace("c05", crates, seed=seed, surface_kw={"plain": True})
    status, secs, _ = e2e.build_workspace(root, crates)
    res.extra["e2e"] = {"build_s": round(secs, 1), "crates": len(crates)}
    for c in crates:
        st = status[c.name]
        if not st["ok"]:
            res.ev()
            res.violation("C05/e2e-valid-project-does-not-compile", "crate %s: %s" % (c.name, "\n".join(st["messages"])[:3000]),
                          {"project": gen.project_to_jsonable(c.project)})
            continue
        obs, done, rc, err = e2e.run_crate(st["exe"])
        if not done:
            res.inconclusive.append("probe crate %s did not finish (rc=%r) %s" % (c.name, rc, err[-200:]))
        for oid, exp in c.expect.items():
            got = obs.get(oid, {})
            loc = exp["locale"]
            for n in exp.get("counts", RT_COUNTS):
                if exp["kind"] == "t_plural":
                    res.ev()
                    want = table[loc][exp["rule"]]["cat"][str(n)]
                    if "arms" in exp and want not in exp["arms"]:
                        want = "rest"
                    o = got.get("c%d" % n) or got.get("*") or {}
                    text = o.get("v", "<<%s>>" % o.get("panic", "missing"))
                    res.count("e2e:" + exp.get("macro", "td_plural"))
                    if text != want:
                        res.violation("C05/e2e-td_plural-category-differs", "locale=%s rule=%s count=%d expected %s got %s" % (loc, exp["rule"], n, want, text),
                                      {"locale": loc, "rule": exp["rule"], "count": n})
                        break
                    continue
                want = "⟨%s⟩%d" % (expected_form(table, loc, exp["rule"], exp["forms"], str(n)), n)
                bad = False
                for fl in ("s", "v"):
                    res.ev()
                    o = got.get("%s%d" % (fl, n)) or got.get("*") or {}
                    text = o.get("v", "<<%s>>" % o.get("panic", "missing"))
                    if fl == "v":
                        text = e2e.normalise_html(text)
                    res.count("e2e:runtime-" + ("string" if fl == "s" else "view") + (":" + exp["type"] if "type" in exp else ""))
                    if text != want:
                        res.violation("C05/e2e-runtime-renders-other-form/" + fl, "locale=%s rule=%s forms=%s count=%d flavour=%s: expected %r got %r" % (
                            loc, exp["rule"], exp["forms"], n, fl, want, text), {"project": gen.project_to_jsonable(c.project), "key": exp["key"], "locale": loc, "count": n})
                        bad = True
                if bad:
                    break


def run(tier, seed, replay=None):
    res = Result("C05", tier, seed, RULE)
    table = probe.plural_table(LOCALES, workload.PLURAL_COUNTS)
    check_anchors(table)
    res.extra["oracle_anchor_points_checked"] = sum(len(m) for _, _, m in ANCHORS)
    parser_stage(res, tier, seed, table)
    negative_stage(res, seed)
    e2e_stage(res, tier, seed, table)
    res.assumptions += ["ICU4X compiled CLDR data is the oracle for plural categories (anchored by a hand-written table)",
                        "float literal counts are read through serde_json and FixedDecimal::try_from_f64(Floating): trailing zeros are not preserved (documented)"]
    return res.finish(min_events=5000)
