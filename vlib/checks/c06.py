"""C06 Foreign keys are pure substitution.

Random acyclic reference graphs over keys of every kind (literal, interpolation, component, range,
plural, subkey paths, cross-namespace) with every argument kind; the real parser's resolved values
are evaluated by pvdump and compared with the model (which substitutes by name). Unresolvable,
subkey-group and cyclic references must be rejected with an error naming a key involved."""
import copy
import itertools
import json

from .. import e2e, gen, model, projects, pvdump, rustfmt, workload
from ..common import Result, rng_for
from ..gen import GenCfg, pick
from . import c01

RULE = ("random acyclic reference graphs (depth<=5) generated and validated against the model; an evaluation is one "
        "(locale, referencing key, args) text comparison, or one invalid graph that must be rejected; non-trivial = the "
        "reference passes >=1 argument or goes through >=2 hops; distinct by hash of the resolved value")

ARG_TEXT = [a for a in gen.SAFE_TEXT_ATOMS if "{" not in a and "}" not in a]
VARS = ["name", "x", "y", "value", "who", "amount"]
COMPS = ["b", "i", "em", "span"]


def text(rng, loc=""):
    return gen.gen_text(rng, 3, ARG_TEXT) + (("@" + loc) if loc else "")


def base_node(rng, cfg, kind):
    if kind == "lit":
        return {"k": "lit", "ty": "str", "v": text(rng)}
    if kind == "tmpl":
        segs = []
        for _ in range(rng.randint(1, 4)):
            r = rng.random()
            if r < 0.35:
                if not (segs and segs[-1]["s"] == "text"):
                    segs.append({"s": "text", "v": text(rng)})
            elif r < 0.75:
                segs.append({"s": "var", "name": pick(rng, VARS), "fmt": None})
            else:
                inner = [{"s": "text", "v": text(rng)}]
                if rng.random() < 0.6:
                    inner.append({"s": "var", "name": pick(rng, VARS), "fmt": None})
                segs.append({"s": "comp", "name": pick(rng, COMPS), "inner": inner})
        if not any(s["s"] != "text" for s in segs):
            segs.append({"s": "var", "name": pick(rng, VARS), "fmt": None})
        return {"k": "tmpl", "segs": segs}
    seg_gen = lambda: [{"s": "text", "v": text(rng)}] + ([{"s": "var", "name": pick(rng, ["count", "count"] + VARS[:3]), "fmt": None}] if rng.random() < 0.7 else []) \
        + ([{"s": "comp", "name": pick(rng, COMPS), "inner": [{"s": "var", "name": pick(rng, ["count"] + VARS[:2]), "fmt": None}]}] if rng.random() < 0.25 else [])
    if kind == "range":
        return gen.gen_range(rng, cfg, ty=pick(rng, [None, "u8", "i8", "u32", "i64", "f32", "f64", "u64", "i16"]), seg_gen=seg_gen)
    if kind == "plural":
        return gen.gen_plural(rng, cfg, seg_gen=seg_gen)
    raise ValueError(kind)


def literal_count_for(rng, kind):
    if kind == "plural":
        return pick(rng, [{"a": "int", "v": pick(rng, [0, 1, 2, 3, 5, 11, 21, 100])}, {"a": "float", "v": pick(rng, [1.5, 0.5, 2.0])}])
    ty = kind.split(":")[1]
    if ty.startswith("f"):
        return {"a": "float", "v": pick(rng, [0.0, 0.5, 1.0, 1.5, 2.5, 3.0, 10.0, 100.0, -1.0, -3.25, 0.1])}
    lo, hi = rustfmt.INT_BOUNDS[ty]
    return {"a": "int", "v": pick(rng, [0, 1, 2, 5, 10, 100, lo, hi, rng.randint(max(lo, -300), min(hi, 300))])}


BUILDER_LOCALES = ["en", "fr", "it", "de", "ru", "ar"]


def builder_ptable():
    from .. import probe
    return probe.plural_table(BUILDER_LOCALES, workload.PLURAL_COUNTS)


class Builder:
    def __init__(self, rng, tier, ptable=None):
        self.rng = rng
        self.ptable = ptable
        rng_ = rng
        self.cfg = GenCfg()
        self.locales = rng_.sample(BUILDER_LOCALES, rng_.randint(2, 3))
        self.default = self.locales[0]
        self.nss = [None] if rng_.random() < 0.6 else ["nsa", "nsb"]
        inh = {}
        for l in self.locales[1:]:
            if rng_.random() < 0.4:
                inh[l] = pick(rng_, [x for x in self.locales if x != l])
        self.project = {"cfg": {"default": self.default, "locales": list(self.locales), "namespaces": None if self.nss == [None] else list(self.nss),
                                "inherits": inh, "locales_dir": None},
                        "data": {(ns, l): [] for ns in self.nss for l in self.locales}}
        self.keys = []       # (ns, path) in rank order
        self.info = {}       # (ns, path) -> (vars, comps, counts) in default locale
        self.ref_keys = []
        self.fresh = 0

    def tree_insert(self, ns, loc, path, node):
        tree = self.project["data"][(ns, loc)]
        for k in path[:-1]:
            sub = model.tree_get(tree, k)
            if sub is None:
                sub = {"k": "sub", "tree": []}
                tree.append([k, sub])
            tree = sub["tree"]
        tree.append([path[-1], node])

    def tree_remove(self, ns, loc, path):
        tree = self.project["data"][(ns, loc)]
        for k in path[:-1]:
            tree = model.tree_get(tree, k)["tree"]
        tree[:] = [kv for kv in tree if kv[0] != path[-1]]

    def localise(self, node, loc):
        """Structural copy with the literal texts marked by the locale (so a value read from another
        locale is visible) and ranges / plurals re-drawn."""
        n = copy.deepcopy(node)

        def segs(ss):
            for s in ss:
                if s["s"] == "text":
                    s["v"] = s["v"] + "@" + loc
                elif s["s"] == "comp":
                    segs(s["inner"])
                elif s["s"] == "fk":
                    for _, a in (s.get("args") or []):
                        if a["a"] == "str":
                            segs(a["segs"])
        if n["k"] == "lit":
            n["v"] = n["v"] + "@" + loc
        elif n["k"] == "tmpl":
            segs(n["segs"])
        elif n["k"] == "range":
            for br in n["branches"]:
                segs(br["segs"])
        elif n["k"] == "plural":
            for f in n["forms"].values():
                segs(f)
        return n

    def new_path(self, i):
        r = self.rng.random()
        if r < 0.7:
            return ("k%d" % i,)
        if r < 0.9:
            return ("grp", "k%d" % i)
        return ("grp", "deep", "k%d" % i)

    def add_key(self, i, node, ns):
        path = self.new_path(i)
        for l in self.locales:
            self.tree_insert(ns, l, path, node if l == self.default else self.localise(node, l))
        return path

    def analyse(self, ns, path):
        """(ok, info) — resolves the key in every locale with the model and checks cross-locale count typing."""
        kinds = {}
        info = None
        for l in self.locales:
            try:
                rn = model.Resolver(self.project, self.ptable, null_target="chain").key(ns, l, path)
            except model.ModelError as e:
                return False, None
            if rn is None:
                continue
            v, c, cnt = model.collect_vars(rn)
            for name, ks in cnt.items():
                kinds.setdefault(name, set()).update(ks)
            for name in v:
                kinds.setdefault(name, set())
            if l == self.default:
                info = (v, c, cnt)
        for name, ks in kinds.items():
            if len(ks) > 1:
                return False, None
        return True, info

    def make_fk(self, target, ns_here):
        rng = self.rng
        tns, tpath = target
        v, c, cnt = self.info[target]
        args = []
        for name in sorted(v):
            if name in cnt:
                continue
            if rng.random() < 0.6:
                kind = pick(rng, ["str", "str", "int", "float", "bool", "interp", "nested", "comp"])
                if kind == "str":
                    args.append([name, {"a": "str", "segs": [{"s": "text", "v": text(rng)}]}])
                elif kind == "int":
                    args.append([name, {"a": "int", "v": pick(rng, [0, 56, -3, 2**40])}])
                elif kind == "float":
                    args.append([name, {"a": "float", "v": pick(rng, [1.5, -0.25, 3.0, 100.5])}])
                elif kind == "bool":
                    args.append([name, {"a": "bool", "v": rng.random() < 0.5}])
                elif kind == "interp":
                    self.fresh += 1
                    args.append([name, {"a": "str", "segs": [{"s": "text", "v": text(rng)}, {"s": "var", "name": "nv%d" % (self.fresh % 3), "fmt": None}]}])
                elif kind == "comp":
                    args.append([name, {"a": "str", "segs": [{"s": "comp", "name": pick(rng, COMPS), "inner": [{"s": "text", "v": text(rng)}]}]}])
                else:
                    plain = [k for k in self.keys if k in self.info and not self.info[k][2] and k[0] == tns]
                    if plain:
                        t2 = pick(rng, plain)
                        args.append([name, {"a": "str", "segs": [{"s": "text", "v": text(rng)}, {"s": "fk", "ns": t2[0], "path": list(t2[1]), "args": None}]}])
        for cname in sorted(cnt):
            kind = sorted(cnt[cname])[0]
            r = rng.random()
            if r < 0.4:
                args.append([cname, literal_count_for(rng, kind)])
            elif r < 0.7:
                self.fresh += 1
                nm = "cnt%d" % (self.fresh % 2)
                args.append([cname, {"a": "str", "segs": [{"s": "var", "name": nm, "fmt": None}] if rng.random() < 0.5 else
                                      [{"s": "text", "v": " "}, {"s": "var", "name": nm, "fmt": None}, {"s": "text", "v": " "}]}])
        if rng.random() < 0.2:
            args.append(["unused_arg", {"a": "str", "segs": [{"s": "text", "v": "discarded"}]}])
        return {"s": "fk", "ns": tns, "path": list(tpath), "args": args if (args or rng.random() < 0.3) else None}

    def build(self, nbase, nref):
        rng = self.rng
        i = 0
        for _ in range(nbase):
            ns = pick(rng, self.nss)
            node = base_node(rng, self.cfg, pick(rng, ["lit", "tmpl", "tmpl", "range", "plural"]))
            path = self.add_key(i, node, ns)
            ok, info = self.analyse(ns, path)
            if not ok:
                for l in self.locales:
                    self.tree_remove(ns, l, path)
                continue
            self.keys.append((ns, path))
            self.info[(ns, path)] = info
            i += 1
        for _ in range(nref):
            ns = pick(rng, self.nss)
            for attempt in range(4):
                segs = []
                for _ in range(rng.randint(1, 3)):
                    r = rng.random()
                    if r < 0.3 and not (segs and segs[-1]["s"] == "text"):
                        segs.append({"s": "text", "v": text(rng)})
                    elif r < 0.4:
                        segs.append({"s": "var", "name": pick(rng, VARS), "fmt": None})
                    else:
                        cands = [k for k in self.keys if (k[0] is None) == (ns is None)]
                        if cands:
                            # prefer recent keys: builds chains
                            target = pick(rng, cands[-6:] if rng.random() < 0.7 else cands)
                            segs.append(self.make_fk(target, ns))
                if not any(s["s"] == "fk" for s in segs):
                    continue
                node = {"k": "tmpl", "segs": segs}
                path = self.add_key(i, node, ns)
                ok, info = self.analyse(ns, path)
                if ok and info is not None:
                    self.keys.append((ns, path))
                    self.info[(ns, path)] = info
                    self.ref_keys.append((ns, path))
                    i += 1
                    break
                for l in self.locales:
                    self.tree_remove(ns, l, path)
        # presence patterns in non-default locales: null a few keys (referenced or not)
        for l in self.locales[1:]:
            for (ns, path) in self.keys:
                if rng.random() < 0.08:
                    self.tree_remove(ns, l, path)
                    self.tree_insert(ns, l, path, {"k": "null"})
        self.null_plural_gadget()
        self.range_boundary_gadget()
        for key, tree in self.project["data"].items():
            rng.shuffle(tree)
        return self.project

    def range_boundary_gadget(self):
        """A range whose arms hold different variables, referenced with a literal count at every boundary of every arm: which arm
        a fixed count falls into decides the text and the argument set."""
        rng = self.rng
        ns = self.nss[0]
        ty = pick(rng, ["u8", "i16", "u32", "i64", "f32", "f64"])
        isf = ty.startswith("f")
        a, b, c_, d = (1.5, 4.5, 9.0, 10.5) if isf else (1, 5, 9, 10)

        def arm(tag, specs):
            return {"specs": specs, "segs": [{"s": "text", "v": tag + " "}, {"s": "var", "name": "v_" + tag, "fmt": None}]}
        node = {"k": "range", "ty": ty, "branches": [
            arm("a", [{"r": "bounds", "start": a, "end": b, "incl": False}]),
            arm("b", [{"r": "bounds", "start": b, "end": c_, "incl": True}]),
            arm("c", [{"r": "exact", "v": d}]),
            {"specs": None, "fb": "_", "segs": [{"s": "text", "v": "d "}, {"s": "var", "name": "v_d", "fmt": None}]}]}
        for l in self.locales:
            self.tree_insert(ns, l, ("rg",), node if l == self.default else self.localise(node, l))
        step = 0.5 if isf else 1
        for ci, n in enumerate([a - step, a, b - step, b, c_, c_ + step, d, d + step]):
            lit = {"a": "float", "v": float(n)} if isf else {"a": "int", "v": int(n)}
            for l in self.locales:
                self.tree_insert(ns, l, ("rgr_%d" % ci,), {"k": "tmpl", "segs": [{"s": "text", "v": "ref@%s " % l}, {"s": "fk", "ns": ns, "path": ["rg"], "args": [["count", lit]]}]})

    def null_plural_gadget(self):
        """A plural that a non-default locale leaves to its parent / the default (`null`), referenced from that locale with a literal
        count whose category differs between the two locales, with a different variable in every form: whose rules pick the form
        decides both the text and the argument set."""
        rng = self.rng
        if self.ptable is None:
            return
        ns = self.nss[0]
        forms = {f: [{"s": "text", "v": f + " "}, {"s": "var", "name": "v_" + f, "fmt": None}] for f in ("zero", "one", "two", "few", "many", "other")}
        for rule in ("cardinal", "ordinal"):
            name = "np_" + rule[:3]
            for l in self.locales:
                node = {"k": "plural", "rule": rule, "forms": copy.deepcopy(forms)} if l == self.default else {"k": "null"}
                self.tree_insert(ns, l, (name,), node if l != self.default else self.localise(node, l) if False else node)
            for ci, c in enumerate(["0", "1", "2", "3", "5", "11", "21", "1.5"]):
                lit = {"a": "float", "v": float(c)} if "." in c else {"a": "int", "v": int(c)}
                for l in self.locales:
                    eff = model.effective_locale(self.project, ns, l, (name,))
                    differs = self.ptable[l][rule]["cat"][c] != self.ptable[eff][rule]["cat"][c]
                    if l == self.default or differs:
                        self.tree_insert(ns, l, ("npr_%s_%d" % (rule[:3], ci),), {"k": "tmpl", "segs": [{"s": "text", "v": "ref@%s " % l}, {"s": "fk", "ns": ns, "path": [name], "args": [["count", lit]]}]})
                    else:
                        self.tree_insert(ns, l, ("npr_%s_%d" % (rule[:3], ci),), {"k": "lit", "ty": "str", "v": "plain@" + l})


DECL_KEYS = [k for k in gen.KEY_POOL if k.isidentifier()]
DECL_VARS = ["name", "x", "y", "value", "n", "who", "what", "amount"]


def add_declare_module(crate, rng):
    """The inline front-end: a second, small project (strings, templates, subkeys, plurals, references with arguments - what the
    `declare_locales!` macro accepts) declared inside `mod decl` of the probe crate and observed like the file-based one. The
    order of the declarations is the (shuffled) order of the generated trees, so references also come after subkey groups."""
    cfg = GenCfg(p_range=0, p_lit_other=0, p_null=0, p_absent=0.15, p_fk=0.45, p_fk_args=0.5, p_sub=0.3, max_depth=2, p_plural=0.15, n_keys=(7, 11), n_locales=(2, 3),
                 namespaces=0, p_inherits=0, p_empty_comp=0.0, key_pool=DECL_KEYS, var_pool=DECL_VARS, comp_pool=c01.E2E_COMPS, locale_pool=["en", "fr", "de", "pt-BR", "ja"],
                 p_surplus=0, p_lit_mix=0)
    for _ in range(20):
        p = projects.gen_valid_project(rng, cfg)
        p["cfg"]["locales"] = gen.effective_locales(p["cfg"])
        p["cfg"]["locales_dir"] = None
        ptable = workload.plural_table_for([p])
        tmp = e2e.ProbeCrate("tmp", p)
        tmp.next_id = crate.next_id
        try:
            c01.add_e2e_observations(tmp, p, ptable, rng, 1, flavours=("td_string", "td"))
        except model.ModelError:
            continue
        if tmp.obs:
            break
    else:
        return
    surface = gen.Surface(rng)

    def decl(plain, ind):
        items = []
        for k, v in plain.items():
            if isinstance(v, dict):
                items.append("%s%s: %s" % (ind, k, decl(v, ind + "    ")))
            elif isinstance(v, str):
                items.append("%s%s: %s" % (ind, k, e2e.rust_str(v)))
            else:
                raise ValueError("value kind not accepted by declare_locales!: %r" % (v,))
        return "{\n" + ",\n".join(items) + "\n" + ind[:-4] + "}"
    locales = p["cfg"]["locales"]
    blocks = []
    for l in locales:
        blocks.append("        %s: %s" % (e2e.ident(l), decl(gen.lower_tree(p["data"][(None, l)], surface), "            ")))
    src = ["pub mod decl {", "    use crate::support::*;", "    use leptos::prelude::*;",
           "    leptos_i18n::declare_locales! {\n        path: leptos_i18n,\n        interpolate_display,\n        default: %s,\n        locales: [%s],\n%s\n    }" % (
               json.dumps(locales[0]), ", ".join(json.dumps(l) for l in locales), ",\n".join(blocks)),
           "    use i18n::*;"]
    for i, body in tmp.obs:
        src.append("    pub fn obs_%d() {\n%s\n    }" % (i, body))
        crate.obs.append((i, "    decl::obs_%d();" % i))
        crate.expect[i] = dict(tmp.expect[i], front_end="declare_locales")
    src.append("}")
    crate.next_id = tmp.next_id
    crate.extra_items += "\n".join(src) + "\n"
    crate.decl_project = p


def hops(project, ns, loc, path, depth=0):
    n = model.lookup(project["data"].get((ns, loc)) or [], path)
    if n is None or n["k"] != "tmpl" or depth > 8:
        return 0
    best = 0
    for s in n["segs"]:
        if s["s"] == "fk":
            best = max(best, 1 + hops(project, s.get("ns"), loc, s["path"], depth + 1))
    return best


def classify(project, ns, loc, path, args=None, cvals=None, observed=None, ptable=None):
    """cause classifier for a text mismatch (part of the signature)."""
    cfg = project["cfg"]
    # exact recogniser of the recorded finding: the observed text is what the model gives when a
    # reference to a key that is `null` here is read from the default locale instead of along `inherits`
    if observed is not None and (cfg.get("inherits") or {}):
        try:
            eff = model.effective_locale(project, ns, loc, path)
            alt = model.Resolver(project, ptable, null_target="default").key(ns, eff, path)
            if model.render_rnodes(alt, args, eff, ptable, cvals) == observed:
                return "null-target-read-from-default-locale-instead-of-inherits-chain"
        except (model.ModelError, KeyError):
            pass

    def walk(ns_, path_, depth=0):
        n = model.lookup(project["data"].get((ns_, loc)) or [], path_)
        if n is None or depth > 8:
            return set()
        out = set()
        if n["k"] == "null":
            out.add("null-target" + ("-with-inherits" if loc in (cfg.get("inherits") or {}) else ""))
            return out
        if n["k"] != "tmpl":
            return out
        for s in n["segs"]:
            if s["s"] == "fk":
                sub = walk(s.get("ns"), s["path"], depth + 1)
                out |= sub
                tn = model.lookup(project["data"].get((s.get("ns"), loc)) or [], s["path"])
                if s.get("args") and tn is not None and tn["k"] == "tmpl" and any(x["s"] == "fk" for x in tn["segs"]):
                    out.add("args-through-nested-reference")
                for name, a in (s.get("args") or []):
                    if name != "count" and name.startswith("cnt"):
                        out.add("count-arg-for-renamed-count")
        return out
    try:
        loc = model.effective_locale(project, ns, loc, path)
    except model.ModelError:
        pass
    c = walk(ns, path)
    return "+".join(sorted(c)) if c else "plain"


CYCLES = [
    {"a": "$t(a)"},
    {"a": "x $t(b)", "b": "$t(a) y"},
    {"a": "$t(b)", "b": "$t(c)", "c": "$t(a)"},
    {"a": "$t(b, {\"x\": \"$t(a)\"})", "b": "{{ x }}"},
    {"a": "$t(b)", "b": "$t(b)"},
    {"a": [["$t(a)", 0], ["x", "_"]]},
    {"a_one": "$t(b)", "a_other": "o", "b": "$t(a, {\"count\": 1})"},
    {"s": {"a": "$t(s.b)", "b": "$t(s.a)"}},
]
UNRESOLVED = [
    ({"a": "$t(nokey)"}, ["nokey", "a"]),
    ({"a": "$t(s)", "s": {"x": "y"}}, ["s", "a"]),
    ({"a": "$t(s.nokey)", "s": {"x": "y"}}, ["s.nokey", "a"]),
    ({"a": "$t(b.c)", "b": "plain"}, ["b.c", "a"]),
    ({"a": "$t(ns:b)", "b": "plain"}, ["b", "a"]),
]


def negative_stage(res, seed):
    projs, metas = [], []
    base_cfg = {"default": "en", "locales": ["en", "fr"], "namespaces": None, "inherits": {}, "locales_dir": None}
    for raw in CYCLES:
        for perm in itertools.islice(itertools.permutations(list(raw)), 6):
            tree = [[k, {"k": "raw", "v": raw[k]}] for k in perm]
            projs.append({"cfg": base_cfg, "data": {(None, "en"): tree, (None, "fr"): copy.deepcopy(tree)}})
            metas.append(("cyclic", [k.split("_")[0] if k.endswith(("_one", "_other")) else k for k in raw] + ["s.a", "s.b"]))
    for raw, names in UNRESOLVED:
        tree = [[k, {"k": "raw", "v": v}] for k, v in raw.items()]
        projs.append({"cfg": base_cfg, "data": {(None, "en"): tree, (None, "fr"): copy.deepcopy(tree)}})
        metas.append(("unresolved", names))
    # implicitly defaulted target in a non-default locale (documented: not allowed)
    projs.append({"cfg": base_cfg, "data": {(None, "en"): [["a", {"k": "raw", "v": "$t(b)"}], ["b", {"k": "raw", "v": "B"}]],
                                            (None, "fr"): [["a", {"k": "raw", "v": "$t(b)"}]]}})
    metas.append(("unresolved", ["b", "a"]))
    dirs, _ = workload.materialise(projs, "c06-neg", seed=seed)
    outs = workload.run_projects(dirs, "json")
    for p, (kind, names), o in zip(projs, metas, outs):
        res.ev()
        res.count("negative:" + kind)
        if o["outcome"] != "err":
            res.violation("C06/%s-reference-not-rejected/%s" % (kind, o["outcome"]),
                          "%s reference graph %s gave outcome %s (%s)" % (kind, {k: n["v"] for k, n in p["data"][(None, "en")]}, o["outcome"], o.get("msg") or o.get("signal")),
                          {"project": gen.project_to_jsonable(p)})
            continue
        err = o["err"]
        if not any(('"%s"' % n) in err or ('"%s.' % n) in err or (".%s\"" % n) in err for n in names):
            res.violation("C06/%s-error-does-not-name-a-key" % kind, "error %r names none of %s" % (err, names),
                          {"project": gen.project_to_jsonable(p)})


def run(tier, seed, replay=None):
    res = Result("C06", tier, seed, RULE)
    rng = rng_for(seed, "C06")
    n = 250 if tier == "quick" else 20000
    projs, builders = [], []
    ptable = builder_ptable()
    for _ in range(n):
        b = Builder(rng, tier, ptable)
        projs.append(b.build(rng.randint(4, 8), rng.randint(3, 9)))
        builders.append(b)
    dirs, _ = workload.materialise(projs, "c06", seed=seed)
    outs = workload.run_projects(dirs, "json")
    nref = 0
    for p, b, o in zip(projs, builders, outs):
        resolver = model.Resolver(p, ptable, null_target="chain")
        only = set((ns, tuple(path)) for ns, path in b.ref_keys)
        nref += len(only)
        for ns, path in b.ref_keys:
            res.count("hops:%d" % min(4, hops(p, ns, b.default, path)))
        c01.check_project(res, p, o, ptable, rng, prop="C06", resolver=resolver, only_paths=only, classify=classify)
    res.extra["projects"] = n
    res.extra["referencing_keys"] = nref
    negative_stage(res, seed)
    # end to end: generated accessors of referencing keys
    erng = rng_for(seed, "C06", "E")
    crates = []
    for i in range(2 if tier == "quick" else 24):
        b = Builder(erng, tier, ptable)
        p = b.build(erng.randint(5, 8), erng.randint(6, 10))
        c = e2e.ProbeCrate("c06_%d" % i, p)
        c01.add_e2e_observations(c, p, workload.plural_table_for([p]), erng, 1, flavours=("td_string", "td"))
        add_declare_module(c, erng)
        crates.append(c)
    root = e2e.write_workspace("c06", crates, seed=seed)
    status, secs, _ = e2e.build_workspace(root, crates)
    res.extra["e2e"] = {"build_s": round(secs, 1), "crates": len(crates)}
    for c in crates:
        st = status[c.name]
        if not st["ok"]:
            res.ev()
            res.violation("C06/e2e-valid-project-does-not-compile", "crate %s: %s" % (c.name, "\n".join(st["messages"])[:3000]),
                          {"project": gen.project_to_jsonable(c.project)})
            continue
        obs, done, rc, err = e2e.run_crate(st["exe"])
        if not done:
            res.inconclusive.append("probe crate %s did not finish" % c.name)
        c01.judge_e2e(res, c, obs, ("td_string", "td"), prop_sig="C06")
    res.assumptions += ["argument strings contain no braces (the reference syntax finds the end of the argument object by brace counting)",
                        "float arguments are short decimals (the book warns about digits lost on deserialisation)"]
    return res.finish(min_events=1500)
