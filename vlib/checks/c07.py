"""C07 Key sets are checked against the default locale, with exact diagnostics.

Monitors the `Warnings` and key tree returned by the real parser (normal and suppress_key_warnings
builds) against the model's multiset {Missing(l, path), Surplus(l, path)}; the `deprecated` warnings
rustc prints for a generated crate; and compile failure of accessor calls to surplus keys."""
from .. import e2e, gen, model, projects, pvdump, workload
from ..common import Result, rng_for
from ..gen import GenCfg
from . import c01

RULE = ("random per-locale key sets (nested subkeys, namespaces, plural groups) x inherits maps x {normal, suppress} builds; "
        "an evaluation is one project's diagnostics multiset comparison plus one key-tree comparison; non-trivial = the "
        "expected multiset has >=1 missing and >=1 surplus entry or an inheriting locale lacks keys; distinct by hash of the "
        "expected multiset shape")


def cfg_for():
    return GenCfg(p_absent=0.22, p_null=0.12, p_surplus=0.5, p_sub=0.3, max_depth=3, p_inherits=0.6, n_keys=(4, 9),
                  n_locales=(2, 4), p_fk=0.0, namespaces=0.3, mix_kinds=0.3)


def key_tree_names(tree):
    out = {}
    for k, n in tree:
        out[k] = key_tree_names(n["tree"]) if n["k"] == "sub" else None
    return out


def dump_tree_names(keys):
    out = {}
    for k, v in keys:
        out[k] = dump_tree_names(v["keys"]) if v["t"] == "subkeys" else None
    return out


def check(res, project, out, suppress):
    cfg = project["cfg"]
    default = gen.effective_locales(cfg)[0]
    res.ev()
    try:
        expected = model.key_warnings(project, suppress=suppress)
    except model.ModelError as e:
        if out["outcome"] != "err":
            res.violation("C07/kind-mismatch-accepted", "model says %s but outcome is %s" % (e, out["outcome"]),
                          {"project": gen.project_to_jsonable(project)})
        else:
            res.count("rejected:" + e.kind)
        return
    if out["outcome"] != "ok":
        res.violation("C07/valid-project-rejected/" + str(out.get("err_kind") or out["outcome"]), str(out.get("err") or out.get("msg")),
                      {"project": gen.project_to_jsonable(project)})
        return
    got = sorted((w["k"], w["locale"], w["path"]) for w in out["warnings"] if w["k"] in ("missing", "surplus"))
    kinds = {k for k, _, _ in expected}
    if len(kinds) == 2 or (expected and cfg.get("inherits")):
        res.nontriv([sorted(set((k, p.count(".")) for k, l, p in expected)), bool(cfg.get("inherits")), suppress])
    res.count("suppress-build" if suppress else "normal-build")
    res.count("expected-diagnostics", len(expected))
    if got != expected:
        missing = [x for x in expected if x not in got]
        extra = [x for x in got if x not in expected]
        dup = len(got) != len(set(got))
        sig = "C07/diagnostics-differ/" + ("suppress" if suppress else "normal") + ("/duplicates" if dup else "") + \
              ("/not-reported" if missing else "") + ("/unexpected" if extra else "")
        res.violation(sig, "default=%s inherits=%r suppress=%s\n  not reported: %s\n  unexpected:   %s" % (default, cfg.get("inherits"), suppress, missing, extra),
                      {"project": gen.project_to_jsonable(project), "expected": expected, "observed": got, "suppress": suppress})
    else:
        res.sample({"default": default, "inherits": cfg.get("inherits"), "suppress": suppress, "diagnostics": expected[:8]})
    # accessible keys == keys of the default locale after plural merging
    res.ev()
    bk = out["bk"]
    for ns in (cfg.get("namespaces") or [None]):
        want = key_tree_names(project["data"][(ns, default)])
        have = dump_tree_names(pvdump.keys_of(bk, ns))
        if want != have:
            res.violation("C07/accessible-keys-differ-from-default-locale", "ns=%r expected %s got %s" % (ns, want, have),
                          {"project": gen.project_to_jsonable(project)})


def mismatch_projects(rng, n):
    """projects where a key is a subkey group in one locale and a value in another: must be an error."""
    out = []
    for _ in range(n):
        p = projects.gen_valid_project(rng, cfg_for())
        cfg = p["cfg"]
        locs = gen.effective_locales(cfg)
        ns = (cfg.get("namespaces") or [None])[0]
        dtree = p["data"][(ns, locs[0])]
        victim = locs[1]
        ltree = p["data"][(ns, victim)]
        key, node = dtree[rng.randrange(len(dtree))]
        ltree[:] = [kv for kv in ltree if kv[0] != key]
        if node["k"] == "sub":
            ltree.append([key, {"k": "lit", "ty": "str", "v": "now a value"}])
        else:
            ltree.append([key, {"k": "sub", "tree": [["inner", {"k": "lit", "ty": "str", "v": "now a group"}]]}])
        if node["k"] == "plural":
            continue   # base key of a plural group vs. subkeys named the same is a different rule (C05)
        out.append(p)
    return out


def run(tier, seed, replay=None):
    res = Result("C07", tier, seed, RULE)
    rng = rng_for(seed, "C07")
    n = 400 if tier == "quick" else 25000
    projs = [projects.gen_valid_project(rng, cfg_for()) for _ in range(n)]
    projs += mismatch_projects(rng, 30 if tier == "quick" else 300)
    # a locale (or one namespace of it) that has been created but not translated yet: its file is exactly `{}`
    for _ in range(20 if tier == "quick" else 400):
        p = projects.gen_valid_project(rng, GenCfg(**{**cfg_for().__dict__, "n_locales": (2, 4), "p_fk": 0}))
        locs = gen.effective_locales(p["cfg"])
        victim = rng.choice(locs[1:])
        for ns in (p["cfg"].get("namespaces") or [None]):
            if rng.random() < 0.7:
                p["data"][(ns, victim)] = []
        projs.append(p)
    dirs, _ = workload.materialise(projs, "c07", seed=seed)
    for variant, suppress in (("json", False), ("json_suppress", True)):
        outs = workload.run_projects(dirs, variant)
        for p, o in zip(projs, outs):
            check(res, p, o, suppress)
    res.extra["projects"] = len(projs)
    # end to end: the warnings rustc prints, and unreachable surplus keys
    erng = rng_for(seed, "C07", "E")
    crates, expect = [], {}
    k = 0
    while len(crates) < (2 if tier == "quick" else 16) and k < 400:
        k += 1
        p = projects.gen_valid_project(erng, GenCfg(**{**cfg_for().__dict__, "var_pool": c01.E2E_VARS, "comp_pool": c01.E2E_COMPS, "p_empty_comp": 0}))
        try:
            w = model.key_warnings(p)
        except model.ModelError:
            continue
        if not any(x[0] == "surplus" for x in w) or not any(x[0] == "missing" for x in w):
            continue
        c = e2e.ProbeCrate("c07_%d" % len(crates), p)
        c.add('    emit(0, "ok", "built");', {})
        c.warn_deprecated = True
        crates.append(c)
        expect[c.name] = w
        # one negative twin per project: a call to a surplus key of a non-default locale
        sk = [x for x in w if x[0] == "surplus" and "." not in x[2] and "::" not in x[2]]
        if sk:
            neg = e2e.ProbeCrate("c07_neg_%d" % len(crates), p)
            neg.add('    let v = td_string!(Locale::%s, %s); emit(0, "x", &v.to_string());' % (e2e.ident(sk[0][1]), e2e.ident(sk[0][2])), {})
            neg.negative = True
            crates.append(neg)
    root = e2e.write_workspace("c07", crates, seed=seed)
    status, secs, _ = e2e.build_workspace(root, crates)
    res.extra["e2e"] = {"build_s": round(secs, 1), "crates": len(crates)}
    for c in crates:
        st = status[c.name]
        res.ev()
        if getattr(c, "negative", False):
            res.count("e2e:surplus-key-call")
            if st["ok"]:
                res.violation("C07/e2e-surplus-key-is-reachable", "crate %s calling a key present only in a non-default locale compiled" % c.name,
                              {"project": gen.project_to_jsonable(c.project)})
            continue
        if not st["ok"]:
            res.violation("C07/e2e-valid-project-does-not-compile", "crate %s: %s" % (c.name, "\n".join(st["messages"])[:2000]),
                          {"project": gen.project_to_jsonable(c.project)})
            continue
        notes = sorted(m.split(": ", 1)[1] for m in st["warnings"] if m.startswith("use of deprecated function") and ": " in m)
        want = []
        for kind, loc, path in expect[c.name]:
            if kind == "missing":
                want.append('Missing key "%s" in locale "%s"' % (path, loc))
            else:
                want.append('Key "%s" is present in locale "%s" but not in default locale, it is ignored' % (path, loc))
        got = sorted(n for n in notes if n.startswith("Missing key") or n.startswith("Key \""))
        res.count("e2e:rustc-warnings", len(got))
        if got != sorted(want):
            res.violation("C07/e2e-rustc-warnings-differ", "expected %s\n  got %s" % (sorted(want), got),
                          {"project": gen.project_to_jsonable(c.project)})
    res.assumptions += ["reference model vlib/model.py key_warnings", "rustc's `deprecated` lint carries the note text unchanged"]
    return res.finish(min_events=500)
