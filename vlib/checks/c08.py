"""C08 A key's required arguments are the union over all locales.

Monitors: (1) the InterpolationKeys the real parser computes for every key vs the model's union over
locales of variables / components / typed count variables after foreign-key substitution;
(2) differential compile pairs in generated crates: a call supplying exactly the set must compile
(and render) for every locale, the same call minus one member — or naming an unknown key — must not."""
import json
import os
import shutil
import subprocess
import time

from .. import e2e, gen, model, projects, pvdump, workload
from ..common import Result, rng_for, cargo_env, Inconclusive, TARGET, REPO
from ..gen import GenCfg
from . import c01, c06

RULE = ("keys whose per-locale values differ in kind and in variable/component sets (valid generated projects with "
        "mix_kinds, and foreign-key graphs renaming counts); an evaluation is one key's argument-set comparison or one "
        "compile pair member; non-trivial = >=2 locales contribute different members; distinct by hash of per-locale sets")


def model_union(project, ptable, ns, path, locales):
    vars_, comps, counts = {}, set(), {}
    per = []
    resolver = model.Resolver(project, ptable)
    for loc in locales:
        tree = project["data"].get((ns, loc))
        node = model.lookup(tree, path) if tree is not None else None
        if node is None or node["k"] == "null":
            per.append(None)
            continue
        rn = resolver.key(ns, loc, path)
        v, c, cnt = model.collect_vars(rn)
        per.append((sorted(v), sorted(c)))
        for k, f in v.items():
            vars_.setdefault(k, set()).update(f)
        comps |= c
        for k, kinds in cnt.items():
            counts.setdefault(k, set()).update(kinds)
    return vars_, comps, counts, per


def check_project(res, project, out, ptable):
    cfg = project["cfg"]
    locales = gen.effective_locales(cfg)
    default = locales[0]
    if out["outcome"] != "ok":
        res.ev()
        res.violation("C08/valid-project-rejected/" + str(out.get("err_kind") or out["outcome"]), str(out.get("err") or out.get("msg")),
                      {"project": gen.project_to_jsonable(project)})
        return
    bk = out["bk"]
    for ns in (cfg.get("namespaces") or [None]):
        for path, _ in model.leaf_paths(project["data"][(ns, default)]):
            try:
                vars_, comps, counts, per = model_union(project, ptable, ns, path, locales)
            except model.ModelError as e:
                res.count("model-skip:" + e.kind)
                continue
            res.ev()
            entry = pvdump.find_key(pvdump.keys_of(bk, ns), path)
            if entry is None or entry["t"] != "value":
                res.violation("C08/key-missing", "%s" % (path,), {"project": gen.project_to_jsonable(project)})
                continue
            got_vars = {k[4:]: v for k, v in (entry.get("vars") or {}).items()}
            got_comps = sorted(k[5:] for k in (entry.get("comps") or []))
            want_counts = {k: sorted(v)[0] for k, v in counts.items()}
            got_counts = {k: v["count"] for k, v in got_vars.items() if v["count"]}
            distinct_sets = {json.dumps(p) for p in per if p is not None}
            if len(distinct_sets) >= 2:
                res.nontriv(sorted(distinct_sets))
            res.count("keys-with-%s" % ("args" if (vars_ or comps) else "no-args"))
            if sorted(got_vars) != sorted(vars_) or got_comps != sorted(comps) or got_counts != want_counts:
                res.violation("C08/required-set-differs" + ("/vars" if sorted(got_vars) != sorted(vars_) else "") +
                              ("/comps" if got_comps != sorted(comps) else "") + ("/count-typing" if got_counts != want_counts else ""),
                              "ns=%r key=%s\n  expected vars=%s comps=%s counts=%s\n  observed vars=%s comps=%s counts=%s\n  per locale: %s" % (
                                  ns, ".".join(path), sorted(vars_), sorted(comps), want_counts, sorted(got_vars), got_comps, got_counts,
                                  dict(zip(locales, per))),
                              {"project": gen.project_to_jsonable(project), "ns": ns, "path": path})
            elif len(distinct_sets) >= 2:
                res.sample({"key": ".".join(path), "per_locale": dict(zip(locales, per)), "required": {"vars": sorted(vars_), "comps": sorted(comps), "counts": want_counts}})


def call_src(lv, kp, args, cvals, comps):
    sa = e2e.args_tokens(args, cvals, comps, "string")
    return "td_string!(%s, %s%s)" % (lv, kp, (", " + sa) if sa else "")


BIN_TMPL = """#![allow(warnings)]
#![recursion_limit = "512"]
#[path = "../support.rs"]
mod support;
use support::*;
use leptos::prelude::*;
leptos_i18n::load_locales!();
use i18n::*;
fn main() {
%s
}
"""


def e2e_pairs(res, tier, seed):
    rng = rng_for(seed, "C08", "E")
    npk = 2 if tier == "quick" else 16
    nneg = 10 if tier == "quick" else 30
    root = os.path.join(e2e.E2E_ROOT, "c08")
    if os.path.exists(root):
        shutil.rmtree(root)
    os.makedirs(root)
    members, plan = [], {}
    for pi in range(npk):
        cfg = c01.e2e_cfg(mix_kinds=0.7, p_range=0.2, p_plural=0.15, n_keys=(10, 16), namespaces=0.2, p_null=0.05, p_absent=0.05)
        p = projects.gen_valid_project(rng, cfg)
        ptable = workload.plural_table_for([p])
        locales = gen.effective_locales(p["cfg"])
        name = "c08_%d" % pi
        crate = e2e.ProbeCrate(name, p)
        d = os.path.join(root, name)
        srng = rng_for(seed, "c08", name)
        gen.write_project(p, d, rng=srng, surface=gen.Surface(srng))
        toml = crate.cargo_toml()
        os.makedirs(os.path.join(d, "src", "bin"))
        with open(os.path.join(d, "src", "support.rs"), "w") as f:
            f.write(e2e.SUPPORT_RS)
        pos_lines, negs = [], []
        oid = 0
        for ns in (p["cfg"].get("namespaces") or [None]):
            for path, _ in model.leaf_paths(p["data"][(ns, locales[0])]):
                try:
                    vars_, comps, counts, per = model_union(p, ptable, ns, path, locales)
                except model.ModelError:
                    continue
                union_nodes = []
                resolver = model.Resolver(p, ptable)
                ok = True
                for loc in locales:
                    try:
                        eff = model.effective_locale(p, ns, loc, path)
                        union_nodes += resolver.key(ns, eff, path)
                    except model.ModelError:
                        ok = False
                if not ok:
                    continue
                (args, cvals), = workload.choose_args(union_nodes, rng, 1)[0]
                kp = e2e.key_path_tokens(ns, path)
                for loc in locales:
                    pos_lines.append('    emit(%d, "pos", &%s.to_string());' % (oid, call_src("Locale::" + e2e.ident(loc), kp, args, cvals, comps)))
                    oid += 1
                members_ = [("var", v) for v in args] + [("count", v) for v in cvals] + [("comp", c) for c in comps]
                if members_ and len({json.dumps(x) for x in per if x}) >= 1:
                    kind, victim = members_[rng.randrange(len(members_))]
                    a2 = {k: v for k, v in args.items() if not (kind == "var" and k == victim)}
                    c2 = {k: v for k, v in cvals.items() if not (kind == "count" and k == victim)}
                    m2 = {c for c in comps if not (kind == "comp" and c == victim)}
                    loc = locales[rng.randrange(len(locales))]
                    negs.append(("omit-%s" % kind, call_src("Locale::" + e2e.ident(loc), kp, a2, c2, m2), ".".join(path), victim))
        rng.shuffle(negs)
        negs = negs[:nneg]
        negs.append(("unknown-key", "td_string!(Locale::%s, no_such_key_zz)" % e2e.ident(locales[0]), "no_such_key_zz", None))
        with open(os.path.join(d, "src", "bin", "%s_pos.rs" % name), "w") as f:
            f.write(BIN_TMPL % "\n".join(pos_lines))
        plan["%s_pos" % name] = ("pos", len(pos_lines), p)
        for i, (kind, call, key, victim) in enumerate(negs):
            bn = "%s_neg%d" % (name, i)
            with open(os.path.join(d, "src", "bin", bn + ".rs"), "w") as f:
                f.write(BIN_TMPL % ('    emit(0, "neg", &%s.to_string());' % call))
            plan[bn] = ("neg:" + kind, (key, victim, call), p)
        with open(os.path.join(d, "Cargo.toml"), "w") as f:
            f.write(toml)
        members.append(name)
    with open(os.path.join(root, "Cargo.toml"), "w") as f:
        f.write("[workspace]\nresolver = \"2\"\nmembers = [%s]\n\n[profile.dev]\nopt-level = 0\ndebug = 0\nincremental = false\n" % ", ".join(json.dumps(m) for m in members))
    os.makedirs(os.path.join(root, ".cargo"))
    with open(os.path.join(root, ".cargo", "config.toml"), "w") as f:
        f.write("[net]\noffline = true\n")
    shutil.copy(os.path.join(REPO, "Cargo.lock"), os.path.join(root, "Cargo.lock"))
    t0 = time.time()
    p = subprocess.run(["cargo", "build", "--offline", "--workspace", "--bins", "--keep-going", "--message-format=json"], cwd=root,
                       env=cargo_env(), stdout=subprocess.PIPE, stderr=subprocess.PIPE, text=True, timeout=3600)
    built, errors = {}, {}
    for line in p.stdout.split("\n"):
        try:
            m = json.loads(line)
        except ValueError:
            continue
        t = m.get("target", {}).get("name")
        if m.get("reason") == "compiler-artifact" and m.get("executable"):
            built[t] = m["executable"]
        elif m.get("reason") == "compiler-message" and m["message"].get("level") == "error":
            errors.setdefault(t, []).append(m["message"].get("message"))
    res.extra["e2e"] = {"build_s": round(time.time() - t0, 1), "bins": len(plan)}
    if not built and not errors:
        raise Inconclusive("cargo produced neither artifacts nor errors: " + p.stderr[-1500:])
    diag_seen = {}
    for bn, (kind, info, proj) in plan.items():
        res.ev()
        res.count("pair-member:" + kind)
        if kind == "pos":
            if bn not in built:
                res.violation("C08/exact-set-does-not-compile", "bin %s supplying exactly the required set for every key and locale failed:\n%s" % (
                    bn, "\n".join(errors.get(bn, []))[:2500]), {"project": gen.project_to_jsonable(proj), "root": root})
                continue
            out = subprocess.run([built[bn]], stdout=subprocess.PIPE, stderr=subprocess.PIPE, timeout=300)
            nlines = len([l for l in out.stdout.decode("utf-8", "replace").split("\n") if l.startswith("{")])
            res.ev(nlines)
            res.count("positive-calls-rendered", nlines)
            if out.returncode != 0 or nlines != info:
                res.violation("C08/exact-set-does-not-render", "bin %s rc=%s rendered %d of %d calls: %s" % (bn, out.returncode, nlines, info, out.stderr[-400:]),
                              {"project": gen.project_to_jsonable(proj)})
        else:
            key, victim, call = info
            if bn in built:
                res.violation("C08/incomplete-call-compiles/" + kind.split(":")[1], "call %s (key %s, omitted %r) compiled" % (call, key, victim),
                              {"project": gen.project_to_jsonable(proj), "call": call})
            else:
                msg = (errors.get(bn) or ["<no message>"])[0]
                diag_seen[msg.split("`")[0][:60]] = diag_seen.get(msg.split("`")[0][:60], 0) + 1
                res.nontriv(["neg", kind, key])
    res.extra["e2e"]["diagnostics_seen"] = diag_seen


def run(tier, seed, replay=None):
    res = Result("C08", tier, seed, RULE)
    rng = rng_for(seed, "C08")
    n = 300 if tier == "quick" else 15000
    cfg = GenCfg(mix_kinds=0.7, p_range=0.2, p_plural=0.15, p_fk=0.25, p_null=0.1, p_absent=0.1, n_locales=(2, 4))
    projs = [projects.gen_valid_project(rng, cfg) for _ in range(n)]
    for _ in range(n // 3):
        b = c06.Builder(rng, tier, c06.builder_ptable())
        projs.append(b.build(rng.randint(4, 7), rng.randint(3, 7)))
    ptable = workload.plural_table_for(projs)
    dirs, _ = workload.materialise(projs, "c08", seed=seed)
    outs = workload.run_projects(dirs, "json")
    for p, o in zip(projs, outs):
        check_project(res, p, o, ptable)
    res.extra["projects"] = len(projs)
    e2e_pairs(res, tier, seed)
    res.assumptions += ["compile oracle is a differential pair (exact set compiles / set minus one member does not); diagnostic wording is evidence only"]
    return res.finish(min_events=1000)
