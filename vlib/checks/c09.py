"""C09 Loading translations never panics or hangs, whatever the files contain.

Crash/hang watchdog over three entry points run on the same hostile inputs: the parser
(parse_locales, three file formats), the build-script API (TranslationsInfos) and the real code
generator run in-process on input the parser accepted. Allowed outcomes: a result, or an error with
a non-empty message. Inputs run in batched child processes; a batch that dies is attributed to the
input that had begun; "hang" is decided on CPU time (RLIMIT_CPU), never on wall clock."""
import json
import os
import re
import shutil

from .. import adversarial, gen, probe, projects, workload
from ..common import Result, rng_for, WORK, Inconclusive
from ..gen import GenCfg

RULE = ("valid generated projects mutated by grammar-aware operators (delimiters, multibyte characters next to delimiters, "
        "non-finite / overflowing / reversed range bounds, literal counts without matching branch, references inside plural "
        "forms and arguments, cycles, deep nesting, keyword / empty key names, invalid configs) and by blind byte edits, in "
        "JSON, JSON5 and YAML; an evaluation is one (input, entry point) outcome; non-trivial = the input differs from its "
        "valid parent; distinct by hash of the mutated file contents")

LOC_RE = re.compile(r"(leptos_i18n\w*/src/[\w/]+\.rs):(\d+)")


def delimiter_load(d):
    """max number of tag / interpolation / reference delimiters in one file of the input."""
    best = 0
    for root, _, fs in os.walk(d):
        for fn in fs:
            try:
                data = open(os.path.join(root, fn), "rb").read()
            except OSError:
                continue
            best = max(best, data.count(b"<") + data.count(b"{{") + data.count(b"$t("))
    return best


def outcome_signature(entry, o, d=None):
    oc = o.get("outcome")
    if oc == "panic":
        loc = o.get("loc", "")
        m = LOC_RE.search(loc)
        where = "%s" % (m.group(1) if m else (loc.split("/")[-1].split(":")[0] or "unknown"))
        msg = re.sub(r"[0-9]+", "N", o.get("msg", ""))[:60]
        return "C09/%s/panic/%s/%s" % (entry, where, msg)
    if oc == "killed":
        if o.get("stack_overflow"):
            heavy = d is not None and delimiter_load(d) >= 2000
            return "C09/%s/stack-overflow/%s" % (entry, "single-file-with-thousands-of-delimiters" if heavy else "small-input")
        if o.get("cpu_limit"):
            return "C09/%s/cpu-limit" % entry
        return "C09/%s/killed-signal-%s" % (entry, o.get("signal"))
    if oc == "err" and not (o.get("err") or "").strip():
        return "C09/%s/empty-error-message" % entry
    return None


def classify_input(meta):
    return meta.get("kind", "?")


def make_inputs(rng, n, fmt, tag):
    """Returns list of (dir, meta). Each input is a full project directory."""
    root = os.path.join(WORK, "proj", tag)
    if os.path.exists(root):
        shutil.rmtree(root)
    cfgs = [GenCfg(p_fk=0.3, n_keys=(3, 8), n_locales=(1, 3), namespaces=0.2)]
    inputs = []
    parents = []
    for i in range(max(8, n // 12)):
        p = projects.gen_valid_project(rng, cfgs[0])
        parents.append(p)
    ext = gen.EXT[fmt]
    for i in range(n):
        parent = parents[i % len(parents)]
        d = os.path.join(root, str(i))
        srng = rng_for(i, tag, "s")
        surface = gen.Surface(srng)
        kind = rng.random()
        plains = {}
        for (ns, loc), tree in parent["data"].items():
            plains[(ns, loc)] = gen.lower_tree(tree, surface)
        cfg = dict(parent["cfg"])
        meta = {"fmt": fmt, "i": i}
        raw_bytes = {}
        if kind < 0.62:
            meta["kind"] = "grammar"
            victims = rng.sample(list(plains), rng.randint(1, len(plains)))
            for v in victims:
                for _ in range(rng.randint(1, 3)):
                    plains[v] = adversarial.mutate_plain(plains[v], rng)
        elif kind < 0.82:
            meta["kind"] = "bytes"
        elif kind < 0.92:
            meta["kind"] = "config"
            cfg.update(gen.pick(rng, adversarial.CFG_NASTY))
            if cfg.get("locales") is None:
                cfg["locales"] = None
        else:
            meta["kind"] = "valid"
        os.makedirs(d, exist_ok=True)
        try:
            toml = gen.config_toml(cfg)
        except Exception:  # noqa
            toml = "[package.metadata.leptos-i18n]\n"
        if meta["kind"] == "config" and rng.random() < 0.3:
            toml = adversarial.mutate_bytes(toml.encode(), rng).decode("utf-8", "replace")
        with open(os.path.join(d, "Cargo.toml"), "w") as f:
            f.write(toml)
        ldir = os.path.join(d, cfg.get("locales_dir") or "locales")
        if os.path.abspath(ldir) != os.path.abspath(d) and not os.path.abspath(ldir).startswith(os.path.abspath(d) + os.sep):
            # a locales-dir pointing outside the project: keep the configuration, write the files inside the project only
            ldir = os.path.join(d, "locales")
        try:
            for (ns, loc), plain in plains.items():
                path = os.path.join(ldir, loc + "." + ext) if ns is None else os.path.join(ldir, loc, ns + "." + ext)
                os.makedirs(os.path.dirname(path), exist_ok=True)
                try:
                    data = gen.serialize(plain, fmt, srng).encode("utf-8", "surrogatepass")
                except (ValueError, RecursionError, OverflowError, TypeError):
                    data = json.dumps(plain, ensure_ascii=True, default=str).encode()
                if meta["kind"] == "bytes" and rng.random() < 0.7:
                    data = adversarial.mutate_bytes(data, rng)
                with open(path, "wb") as f:
                    f.write(data)
        except OSError:
            pass
        inputs.append((d, meta))
    return inputs


def curated_inputs(tag):
    """Every entry of the nasty-string / nasty-range / nasty-key tables, alone in a one-locale project."""
    root = os.path.join(WORK, "proj", tag)
    if os.path.exists(root):
        shutil.rmtree(root)
    inputs = []
    cases = []
    for s in adversarial.NASTY:
        cases.append({"a": "target {{ x }}", "k": s})
        cases.append({"a_one": s, "a_other": "o {{ count }}", "k": "v"})
        cases.append({"r": [[s, 1], ["x", "_"]], "a": "A"})
    for r in adversarial.RANGE_NASTY:
        cases.append({"r": r})
        cases.append({"r": r, "f": "$t(r, {\"count\": 5})", "g": "$t(r, {\"count\": 0.5})"})
    for k in adversarial.KEY_NASTY:
        cases.append({k: "plain"})
        cases.append({k: "{{ x }} <b>y</b>"})
        cases.append({k: {"sub": "x"}})
    for base in ("fn", "", "type", "self", "r#fn", "a-b", "é", "x_ordinal", "_ordinal", "count", "x_one"):
        cases.append({base + "_one": "a {{ count }}", base + "_other": "b"})
        cases.append({base + "_ordinal_one": "a", base + "_ordinal_other": "b {{ count }}"})
        cases.append({"s": {base + "_one": "$t(s.%s)" % (base or "x"), base + "_other": "b"}})
    for n in (10, 100, 1000, 3000, 10000):
        cases.append({"deep": adversarial.deep_comp(n)})
        cases.append({"deep": "{{ x }}" * n})
        cases.append({"deep": "$t(a)" * min(n, 2000), "a": "x"})
    for n in (10, 100, 120, 200):
        cases.append({"deep": adversarial.deep_obj(n)})
    # every `inherits` table over four locales (chains, forks, cycles, chains leading into cycles, self-reference), with keys that
    # only the default locale / only one other locale defines: loading and code generation must terminate for all of them
    import itertools
    locs = ["en", "fr", "fr-BE", "fr-CA"]
    k = len(cases)
    for combo in itertools.product([None] + locs, repeat=3):
        inh = {l: t for l, t in zip(locs[1:], combo) if t is not None}
        d = os.path.join(root, "inh%d" % k)
        k += 1
        os.makedirs(os.path.join(d, "locales"))
        with open(os.path.join(d, "Cargo.toml"), "w") as f:
            f.write(gen.config_toml({"default": "en", "locales": list(locs), "inherits": inh}))
        for l in locs:
            content = {"only_en": "x {{ v }}", "grp": {"a": "y"}, "fr_only": "en"} if l == "en" else ({"fr_only": "fr", "grp": None} if l == "fr" else {})
            with open(os.path.join(d, "locales", l + ".json"), "w") as f:
                json.dump(content, f)
        inputs.append((d, {"kind": "curated", "fmt": "json", "case": "inherits=%s" % json.dumps(inh)}))
    # plural groups with few written forms, referenced with a literal count of every CLDR category of five locales
    for forms in (("one",), ("zero",), ("few", "many"), ("two", "one"), ()):
        d = os.path.join(root, "pl%d" % k)
        k += 1
        os.makedirs(os.path.join(d, "locales"))
        plocs = ["en", "fr", "ru", "ar", "cy"]
        with open(os.path.join(d, "Cargo.toml"), "w") as f:
            f.write(gen.config_toml({"default": "en", "locales": plocs}))
        for l in plocs:
            content = {"items_other": "{{ count }} o", "rank_ordinal_other": "{{ count }} th"}
            for fm in forms:
                content["items_" + fm] = fm + " {{ count }}"
                content["rank_ordinal_" + fm] = fm
            for ci, cnt in enumerate([0, 1, 2, 3, 5, 11, 21, 100, 1000000, 1.5, 0.5, -1]):
                content["c%d" % ci] = "$t(items, {\"count\": %s})" % json.dumps(cnt)
                content["o%d" % ci] = "$t(rank, {\"count\": %s})" % json.dumps(cnt)
            with open(os.path.join(d, "locales", l + ".json"), "w") as f:
                json.dump(content, f)
        inputs.append((d, {"kind": "curated", "fmt": "json", "case": "plural forms %s x literal counts" % (forms,)}))
    for i, c in enumerate(cases):
        d = os.path.join(root, str(i))
        os.makedirs(os.path.join(d, "locales"))
        with open(os.path.join(d, "Cargo.toml"), "w") as f:
            f.write(gen.config_toml({"default": "en", "locales": ["en"]}))
        with open(os.path.join(d, "locales", "en.json"), "w") as f:
            try:
                json.dump(c, f, ensure_ascii=False)
            except (RecursionError, ValueError):
                f.write("{}")
        inputs.append((d, {"kind": "curated", "fmt": "json", "case": json.dumps(c, ensure_ascii=False, default=str)[:300]}))
    return inputs


def judge(res, entry, inputs, outs):
    for (d, meta), o in zip(inputs, outs):
        res.ev()
        oc = o.get("outcome")
        res.count("%s:%s" % (entry, oc))
        if meta["kind"] != "valid":
            res.nontriv("%s/%s" % (entry, d))
        sig = outcome_signature(entry, o, d)
        if oc in ("wall_timeout", "lost"):
            res.inconclusive.append("%s: %s on %s" % (entry, oc, d))
            continue
        if oc == "err":
            res.count("%s:err:%s" % (entry, (o.get("err_kind") or o.get("err", "")[:24])))
        if sig:
            files = {}
            for root, _, fs in os.walk(d):
                for fn in fs:
                    try:
                        files[os.path.relpath(os.path.join(root, fn), d)] = open(os.path.join(root, fn), "rb").read()[:4000].decode("utf-8", "replace")
                    except OSError:
                        pass
            res.violation(sig, "%s on %s input (%s): %s" % (oc, meta["kind"], meta.get("fmt"), o.get("msg") or o.get("stderr", "")[-300:] or o),
                          {"entry": entry, "dir": d, "meta": meta, "files": files, "observed": {k: v for k, v in o.items() if k not in ("bk",)}})
        elif len(res.samples) < 6 and oc == "err":
            res.sample({"entry": entry, "kind": meta["kind"], "outcome": oc, "error": o.get("err", "")[:160]})


def run_entry(binary, dirs, extra=None):
    cases = []
    for i, d in enumerate(dirs):
        c = {"id": i, "dir": d, "mode": "nodump"}
        if extra:
            c.update(extra(i, d))
        cases.append(c)
    # small batches: a hang burns at most one batch's CPU budget
    from concurrent.futures import ThreadPoolExecutor
    chunks = [cases[i:i + 150] for i in range(0, len(cases), 150)]
    results = {}
    with ThreadPoolExecutor(probe.NCPU) as ex:
        for r in ex.map(lambda ch: probe.run_batch(binary, ch, cpu_per_case=20), chunks):
            results.update(r)
    return [results.get(i, {"id": i, "outcome": "lost"}) for i in range(len(dirs))]


def memcheck_stage(res, dirs):
    """Supplementary: YAML inputs (those that load or fail cleanly natively) replayed under valgrind memcheck on the
    release parser probe (unsafe-libyaml is the one place where raw pointers are involved). A crash is a violation like
    any other non-Ok/Err outcome; a memcheck report without a crash is recorded as a dependency observation and does
    not change the verdict."""
    try:
        binary = probe.parser_probe("yaml", release=True)
    except Inconclusive as e:
        res.extra["sanitizer_stages"] = {"memcheck": {"status": "inconclusive", "reason": str(e)[-300:]}}
        return
    cases = [{"id": i, "dir": d, "mode": "nodump"} for i, d in enumerate(dirs)]
    from concurrent.futures import ThreadPoolExecutor
    chunks = [cases[i::probe.NCPU] for i in range(probe.NCPU)]
    results = {}
    stderr_reports = []
    try:
        with ThreadPoolExecutor(probe.NCPU) as ex:
            for r in ex.map(lambda ch: probe.run_batch("valgrind", ch, cpu_per_case=600, wall_timeout=3000, limits=False,
                                                       args=["--tool=memcheck", "-q", "--main-stacksize=268435456", "--error-exitcode=0", binary]), chunks):
                results.update(r)
    except (OSError, Inconclusive) as e:
        res.extra["sanitizer_stages"] = {"memcheck": {"status": "inconclusive", "reason": str(e)[:300]}}
        return
    bad = [r for r in results.values() if r.get("outcome") not in ("ok", "err")]
    st = {"status": "violated" if bad else "held", "inputs": len(dirs), "completed": len(results) - len(bad)}
    for r in bad[:3]:
        res.violation("C09/parser/crash-under-memcheck", "yaml input %s under valgrind: %s %s" % (dirs[r["id"]], r.get("outcome"), (r.get("stderr") or "")[-400:]), {"dir": dirs[r["id"]]})
    res.extra.setdefault("sanitizer_stages", {})["memcheck"] = st


def run(tier, seed, replay=None):
    res = Result("C09", tier, seed, RULE)
    rng = rng_for(seed, "C09")
    n = {"quick": 1500, "thorough": 150000}[tier]
    cg = probe.codegen_probe("default")
    bp = probe.build_probe()
    sets = [("json", curated_inputs("c09-curated"))]
    for fmt in ("json", "json5", "yaml"):
        sets.append((fmt, make_inputs(rng, n if fmt == "json" else n // 3, fmt, "c09-" + fmt)))
    total = 0
    yaml_clean = []
    for fmt, inputs in sets:
        dirs = [d for d, _ in inputs]
        total += len(dirs)
        outs = run_entry(probe.parser_probe(fmt), dirs)
        judge(res, "parser", inputs, outs)
        if fmt == "yaml":
            yaml_clean = [d for d, o in zip(dirs, outs) if o.get("outcome") in ("ok", "err")]
        if fmt == "json":
            # the build-script API and the code generator are JSON builds
            outdir = os.path.join(WORK, "c09-out")
            shutil.rmtree(outdir, ignore_errors=True)
            bouts = run_entry(bp, dirs, extra=lambda i, d: {"out": os.path.join(outdir, str(i))})
            judge(res, "build", inputs, bouts)
            accepted = [(inp, o) for inp, o in zip(inputs, outs) if o.get("outcome") == "ok"]
            gouts = run_entry(cg, [inp[0] for inp, _ in accepted])
            judge(res, "codegen", [inp for inp, _ in accepted], gouts)
            res.extra.setdefault("codegen_inputs", 0)
            res.extra["codegen_inputs"] += len(accepted)
    res.extra["inputs"] = total
    if tier == "thorough" or os.environ.get("VERIF_SANITIZERS") == "1":
        memcheck_stage(res, yaml_clean[:240])
    res.assumptions += ["hang = more than 20 CPU-seconds for one project (typical: milliseconds); wall-clock watchdog only yields inconclusive",
                        "the code generator is the real macro source #[path]-included into a normal binary (proc-macro2 fallback mode)"]
    return res.finish(min_events=1000)
