"""C10 Results depend only on translation content, not on order, run or file format.

Differential monitor over the canonical dump of what the real parser returned (key tree, values,
string tables, diagnostics) and over the token stream of the real code generator: the same project
run twice in fresh processes; the same logical content with every object's key order permuted; the
same content written as JSON, JSON5 and YAML (numeric literal types compared modulo i64/u64)."""
import copy
import json
import os

from .. import gen, probe, projects, workload
from ..common import Result, rng_for, WORK, h
from ..gen import GenCfg

RULE = ("valid generated projects; an evaluation is one pairwise comparison (repeat run / key-order permutation / other file "
        "format / token stream) against the project's reference dump; non-trivial = the project has >=2 locales and >=1 "
        "interpolated, range or plural key; distinct by hash of the reference dump")


def has_big_ints(x):
    if isinstance(x, bool):
        return False
    if isinstance(x, int):
        return abs(x) > 2**63 - 1
    if isinstance(x, dict):
        return any(has_big_ints(v) for v in x.values())
    if isinstance(x, list):
        return any(has_big_ints(v) for v in x)
    return False


def canon(o, cross_format=False):
    """canonical text of a probe result (ids removed; with cross_format: integer literal kinds merged)."""
    def fix(x):
        if isinstance(x, dict):
            d = {k: fix(v) for k, v in x.items() if k not in ("id", "tracked")}
            if cross_format:
                if d.get("t") == "lit" and d.get("k") in ("i", "u"):
                    d["k"] = "n"
                if d.get("t") == "value":
                    # JSON reads 5 as u64 and -5 as i64 (JSON5: both i64): whether two locales "agree" on a
                    # numeric literal type is format-dependent, the rendered text and the argument set are not
                    d.pop("lit", None)
                    d.setdefault("vars", {})
                    d.setdefault("comps", [])
            return d
        if isinstance(x, list):
            return [fix(v) for v in x]
        return x
    o = fix(o)
    if cross_format and o.get("outcome") == "err":
        o = {"outcome": "err"}
    if cross_format and "warnings" in o and isinstance(o["warnings"], list):
        # within one format the ORDER of the diagnostics is part of the result (it is the order of the
        # generated `w0, w1, ..` functions); across formats only the multiset is compared
        o["warnings"] = sorted(json.dumps(w, sort_keys=True) for w in o["warnings"])
    return json.dumps(o, sort_keys=True, ensure_ascii=False)


def first_diff(a, b):
    n = min(len(a), len(b))
    for i in range(n):
        if a[i] != b[i]:
            return "...%s | %s..." % (a[max(0, i - 60):i + 60], b[max(0, i - 60):i + 60])
    return "length %d vs %d" % (len(a), len(b))


def inject_fk_failures(p, rng):
    cfg = p["cfg"]
    ns = (cfg.get("namespaces") or [None])[0]
    locales = gen.effective_locales(cfg)

    def ref(path):
        return {"k": "tmpl", "segs": [{"s": "text", "v": "r "}, {"s": "fk", "ns": ns, "path": path, "args": None}]}
    victims = [locales[0]] + ([rng.choice(locales[1:])] if len(locales) > 1 and rng.random() < 0.6 else [])
    kinds = rng.sample(["missing2", "cycle2", "cycle3", "missing+cycle"], rng.randint(1, 2))
    for l in locales:
        tree = p["data"][(ns, l)]
        bad = l in victims
        plain = {"k": "lit", "ty": "str", "v": "ok"}
        for kind in kinds:
            if kind in ("missing2", "missing+cycle"):
                for name, target in (("aa_bad", "zz_missing_1"), ("mm_bad", "aa_missing_2"), ("zz_bad", "mm_missing_3")):
                    tree.append([name + kind[:2], ref([target]) if bad else dict(plain)])
            if kind in ("cycle2", "missing+cycle"):
                tree.append(["cyc_b" + kind[:2], ref(["cyc_a" + kind[:2]]) if bad else dict(plain)])
                tree.append(["cyc_a" + kind[:2], ref(["cyc_b" + kind[:2]]) if bad else dict(plain)])
            if kind == "cycle3":
                for a, b in (("tri_m", "tri_z"), ("tri_z", "tri_a"), ("tri_a", "tri_m")):
                    tree.append([a, ref([b]) if bad else dict(plain)])
        rng.shuffle(tree)


def run(tier, seed, replay=None):
    res = Result("C10", tier, seed, RULE)
    rng = rng_for(seed, "C10")
    n = 150 if tier == "quick" else 6000
    nperm = 3 if tier == "quick" else 5
    cfg = GenCfg(p_fk=0.25, p_surplus=0.3, p_absent=0.15, p_null=0.1, p_inherits=0.5)
    projs = [projects.gen_valid_project(rng, cfg) for _ in range(n - n // 4)]
    # a plural-heavy quarter: several plural groups per level (many emit unused-form diagnostics, whose order is observable)
    pcfg = GenCfg(p_fk=0.1, p_plural=0.5, p_range=0.05, p_surplus=0.3, n_keys=(5, 10), locale_pool=["en", "fr", "ja", "de", "ru", "ar"])
    projs += [projects.gen_valid_project(rng, pcfg) for _ in range(n // 4)]
    # projects that fail in the foreign-key resolution phase in two or more independent places (missing targets, cycles):
    # which failure is reported must not depend on the order of the keys in the files either
    for p in [copy.deepcopy(q) for q in rng.sample(projs, max(6, n // 8))]:
        inject_fk_failures(p, rng)
        projs.append(p)
    # reference materialisation (JSON), keeping the plain data so that variants hold the same logical content
    ref_dirs, plains = workload.materialise(projs, "c10-ref", seed=seed)
    ref = workload.run_projects(ref_dirs, "json")
    ref_c = [canon(o) for o in ref]
    # (a) repeat run in fresh processes
    again = workload.run_projects(ref_dirs, "json")
    for i, (p, o) in enumerate(zip(projs, again)):
        res.ev()
        res.count("repeat-run")
        if ref[i].get("outcome") == "ok" and len(p["cfg"]["locales"]) >= 1:
            res.nontriv(h(ref_c[i]))
        if canon(o) != ref_c[i]:
            res.violation("C10/repeat-run-differs", "project %d: %s" % (i, first_diff(ref_c[i], canon(o))),
                          {"project": gen.project_to_jsonable(p)})
    # (b) key-order permutations
    for k in range(nperm):
        root = os.path.join(WORK, "proj", "c10-perm%d" % k)
        dirs = []
        import shutil
        shutil.rmtree(root, ignore_errors=True)
        for i, p in enumerate(projs):
            d = os.path.join(root, str(i))
            gen.write_project(p, d, fmt="json", rng=rng_for(seed, "perm", k, i), shuffle=True, plain_cache=plains[i])
            dirs.append(d)
        outs = workload.run_projects(dirs, "json")
        for i, (p, o) in enumerate(zip(projs, outs)):
            res.ev()
            res.count("key-order-permutation")
            if canon(o) != ref_c[i]:
                res.violation("C10/key-order-changes-result", "project %d permutation %d: %s" % (i, k, first_diff(ref_c[i], canon(o))),
                              {"project": gen.project_to_jsonable(p), "perm": k})
            elif k == 0 and i < 3:
                res.sample({"project_locales": p["cfg"]["locales"], "compared": "key-order permutation", "dump_hash": h(ref_c[i]), "dump_bytes": len(ref_c[i])})
    # (c) file formats
    ref_x = [canon(o, True) for o in ref]
    for fmt in ("json5", "yaml"):
        root = os.path.join(WORK, "proj", "c10-" + fmt)
        import shutil
        shutil.rmtree(root, ignore_errors=True)
        dirs, idx = [], []
        for i, p in enumerate(projs):
            if any(has_big_ints(pl) for pl in plains[i].values()):
                res.count("cross-format-skipped(ints beyond i64)")
                continue
            d = os.path.join(root, str(i))
            gen.write_project(p, d, fmt=fmt, rng=rng_for(seed, fmt, i), plain_cache=plains[i])
            dirs.append(d)
            idx.append(i)
        outs = workload.run_projects(dirs, fmt)
        for i, o in zip(idx, outs):
            res.ev()
            res.count("format:" + fmt)
            c = canon(o, True)
            if c != ref_x[i]:
                res.violation("C10/format-changes-result/" + fmt, "project %d %s vs json: %s" % (i, fmt, first_diff(ref_x[i], c)),
                              {"project": gen.project_to_jsonable(projs[i]), "format": fmt})
    # (d) generated code: repeat + permutation
    cg = probe.codegen_probe("default")
    sub = list(range(0, n, 3 if tier == "quick" else 2))
    def tokens(dirs):
        cases = [{"id": j, "dir": d, "tokens": False} for j, d in enumerate(dirs)]
        r = probe.run_parallel(cg, cases)
        return [r.get(j, {}) for j in range(len(dirs))]
    t_ref = tokens([ref_dirs[i] for i in sub])
    t_again = tokens([ref_dirs[i] for i in sub])
    t_perm = tokens([os.path.join(WORK, "proj", "c10-perm0", str(i)) for i in sub])
    for i, a, b, c in zip(sub, t_ref, t_again, t_perm):
        for name, other in (("repeat", b), ("permutation", c)):
            res.ev()
            res.count("token-stream:" + name)
            ka = (a.get("outcome"), a.get("hash"), a.get("len"), a.get("err"))
            kb = (other.get("outcome"), other.get("hash"), other.get("len"), other.get("err"))
            if ka != kb:
                res.violation("C10/generated-code-differs/" + name, "project %d: %s vs %s" % (i, ka, kb), {"project": gen.project_to_jsonable(projs[i])})
    res.extra["projects"] = n
    res.assumptions += ["cross-format comparison merges i64/u64 literal kinds (the property allows it) and skips projects holding integers beyond i64 (JSON5 reads them as floats)",
                        "errors are compared across formats by class only (messages carry format-specific positions)"]
    return res.finish(min_events=500)
