"""C11 Exported string tables match the indices the generated code reads.

Invariant monitor over (1) the parser's output: every string literal's index points at its own text in
the top locale's table, inside nested subkeys too, and every nested locale carries the top table's
size; (2) the files written by the build helper: strict JSON that decodes to exactly the table;
(3) the generated code in four feature sets: every `index_translations::<N, I>` has I < N and N is the
size of the table of the locale it reads, and the client-side array size equals the exported file's length."""
import json
import os
import re
import shutil

from .. import gen, model, probe, projects, pvdump, workload
from ..common import Result, rng_for, WORK
from ..gen import GenCfg

RULE = ("valid generated projects with subkeys, namespaces, defaulted locales, foreign keys duplicating strings, and string "
        "contents from the full Unicode alphabet (quotes, backslashes, C0/C1 controls, NBSP, ZWSP, astral); an evaluation is "
        "one indexed literal, one exported file, or one index_translations site; non-trivial = the table has >=2 strings of "
        "which one is shared or contains a character needing escaping; distinct by hash of the table")

ALPHABET = gen.SAFE_TEXT_ATOMS + ["\u0001", "\u0008", "\u000c", "\u001f", "\u007f", "\u0085", "\u009f", "\u00a0", "\u00ad", "\u200b", "\u200e",
                                  "\u2028", "\u2029", "\ufeff", "\U0001F600", "\U0010FFFF", "\\u{a0}", "\\0", "\"\"", "\\\\", "\r\n", "\r", "\u0000"[:0] + "\u0000"]

# every C0 / C1 control, DEL, and the other characters a JSON / JS / Rust writer may special-case, one by one
EVERY_SPECIAL = [chr(c) for c in range(0x20)] + [chr(0x7f)] + [chr(c) for c in range(0x80, 0xa0)] + list("\"\\/'`$<>&") + \
    ["\u00a0", "\u00ad", "\u061c", "\u200b", "\u200c", "\u200d", "\u200e", "\u200f", "\u2028", "\u2029", "\u202e", "\u2060", "\ufeff", "\ufffd",
     "\ufffe", "\uffff", "\ud7ff", "\ue000", "\U00010000", "\U0001F600", "\U000E0001", "\U0010FFFF"]
ALPHABET = ALPHABET + EVERY_SPECIAL


def sweep_project():
    """Deterministic coverage of the string contents: one key per special character (alone and between letters), and one
    key holding all of them, in two locales (the second shares half of the strings, so indices differ)."""
    en, fr = [], []
    for i, ch in enumerate(EVERY_SPECIAL):
        en.append(["c%d" % i, {"k": "lit", "ty": "str", "v": ch}])
        en.append(["m%d" % i, {"k": "lit", "ty": "str", "v": "a" + ch + "b"}])
        fr.append(["c%d" % i, {"k": "lit", "ty": "str", "v": ch if i % 2 else ch + ch}])
        fr.append(["m%d" % i, {"k": "lit", "ty": "str", "v": "a" + ch + "b" + ("" if i % 3 else "!")}])
    en.append(["all", {"k": "lit", "ty": "str", "v": "".join(EVERY_SPECIAL)}])
    fr.append(["all", {"k": "lit", "ty": "str", "v": "".join(reversed(EVERY_SPECIAL))}])
    # a locale that leaves every key to the default (its own table is empty: the exported file must be `[]`), and one holding
    # only a number and a bare variable besides nulls
    de = [[k, {"k": "null"}] for k, _ in en]
    it = [[k, {"k": "null"}] for k, _ in en[2:]] + [[en[0][0], {"k": "lit", "ty": "int", "v": 5}], [en[1][0], {"k": "tmpl", "segs": [{"s": "var", "name": "v", "fmt": None}]}]]
    return {"cfg": {"default": "en", "locales": ["en", "fr", "de", "it"], "namespaces": None, "inherits": {}, "locales_dir": None},
            "data": {(None, "en"): en, (None, "fr"): fr, (None, "de"): de, (None, "it"): it}}


IDX_RE = re.compile(r"index_translations\s*::\s*<\s*(\d+)(?:usize)?\s*,\s*(\d+)(?:usize)?\s*>")
ARR_RE = re.compile(r"\[\s*(?:&\s*(?:'static\s*)?str|Box\s*<\s*str\s*>)\s*;\s*(\d+)(?:usize)?\s*\]")
STRINGS_RE = re.compile(r"const\s+STRINGS\s*:\s*&\s*\[\s*&\s*str\s*;\s*(\d+)(?:usize)?\s*\]\s*=\s*&\s*\[", re.S)


def baked_tables(toks):
    """[(N, body)] for every `const STRINGS: &[&str; N] = &[ .. ];` (body scanned with string-literal awareness)."""
    out = []
    for m in STRINGS_RE.finditer(toks):
        i = m.end()
        start = i
        in_str = False
        while i < len(toks):
            c = toks[i]
            if in_str:
                if c == "\\":
                    i += 2
                    continue
                if c == '"':
                    in_str = False
            elif c == '"':
                in_str = True
            elif c == "]":
                break
            i += 1
        out.append((m.group(1), toks[start:i]))
    return out


def walk_locale(res, loc, top_strings, top_count, where, project, accessible=None):
    """loc: a locale dump (top-level or nested). Only keys the generated code can read are checked
    (a key present only in a non-default locale is never indexed, and never read)."""
    n = 0
    if loc["count"] != top_count:
        res.violation("C11/nested-locale-carries-other-table-size", "%s: count %d, top table has %d" % (where, loc["count"], top_count),
                      {"project": gen.project_to_jsonable(project), "where": where})
    for key, pv in loc["keys"]:
        if accessible is not None and key not in accessible:
            continue
        def visit(node):
            nonlocal n
            if node["t"] == "lit" and node["k"] == "s":
                n += 1
                res.ev()
                i = node.get("i")
                if i is None:
                    res.violation("C11/string-literal-without-index", "%s key %s: %r" % (where, key, node["v"]), {"project": gen.project_to_jsonable(project)})
                elif i >= len(top_strings) or i >= top_count:
                    res.violation("C11/index-out-of-table", "%s key %s: index %d, table size %d" % (where, key, i, len(top_strings)), {"project": gen.project_to_jsonable(project)})
                elif top_strings[i] != node["v"]:
                    res.violation("C11/index-points-at-other-text", "%s key %s: index %d holds %r, literal is %r" % (where, key, i, top_strings[i], node["v"]),
                                  {"project": gen.project_to_jsonable(project)})
        pvdump.walk(pv, visit)
    return n


def walk_keys(res, keys, tops_by_name, where, project):
    n = 0
    for key, entry in keys:
        if entry["t"] == "subkeys":
            for l in entry["locales"]:
                top = tops_by_name[l["top"]]
                n += walk_locale(res, l, top["strings"], top["count"], "%s/%s.%s" % (where, l["top"], key), project,
                                 accessible={k for k, _ in entry["keys"]})
            n += walk_keys(res, entry["keys"], tops_by_name, where + "." + key, project)
    return n


def check_parser(res, project, out):
    if out["outcome"] != "ok":
        res.count("parser-rejected")
        return None
    bk = out["bk"]
    tables = {}
    for ns, locales in pvdump.top_locales(bk):
        tops = {l["top"]: l for l in locales}
        for l in locales:
            res.ev()
            if l["count"] != len(l["strings"]):
                res.violation("C11/table-size-differs-from-count", "ns=%r %s: count %d, %d strings" % (ns, l["top"], l["count"], len(l["strings"])),
                              {"project": gen.project_to_jsonable(project)})
            if len(set(l["strings"])) != len(l["strings"]):
                res.violation("C11/duplicate-string-in-table", "ns=%r %s" % (ns, l["top"]), {"project": gen.project_to_jsonable(project)})
            walk_locale(res, l, l["strings"], l["count"], "%s/%s" % (ns, l["top"]), project,
                        accessible={k for k, _ in pvdump.keys_of(bk, ns)})
            tables[(ns, l["top"])] = l["strings"]
            if len(l["strings"]) >= 2 and any(any(ord(c) < 0x20 or c in '"\\\u00a0\u200b\u2028' or ord(c) > 0xffff for c in s) for s in l["strings"]):
                res.nontriv(l["strings"])
        walk_keys(res, pvdump.keys_of(bk, ns), tops, str(ns), project)
    return tables


def check_files(res, project, tables, bout, outdir):
    if bout["outcome"] != "ok":
        res.ev()
        res.violation("C11/build-helper-failed/" + bout["outcome"], str(bout.get("err") or bout.get("msg")), {"project": gen.project_to_jsonable(project)})
        return
    for (ns, loc), strings in tables.items():
        res.ev()
        path = os.path.join(outdir, loc + ".json") if ns is None else os.path.join(outdir, ns, loc + ".json")
        try:
            raw = open(path, "rb").read()
        except OSError as e:
            res.violation("C11/exported-file-missing", "%s: %s" % (path, e), {"project": gen.project_to_jsonable(project)})
            continue
        res.count("exported-files")
        try:
            decoded = json.loads(raw.decode("utf-8"), strict=True)
        except (ValueError, UnicodeDecodeError) as e:
            bad = [s for s in strings if any(ord(c) < 0x20 or ord(c) == 0x7f or 0x80 <= ord(c) <= 0x9f or c in "\u00a0\u00ad\u200b\u200e\u2028\u2029\ufeff" or ord(c) > 0xffff for c in s)]
            res.violation("C11/exported-file-is-not-json", "ns=%r locale=%s: %s\n  file starts: %r\n  strings needing escapes: %r" % (ns, loc, e, raw[:200], bad[:3]),
                          {"project": gen.project_to_jsonable(project), "file": raw.decode("utf-8", "replace")[:3000], "strings": strings})
            continue
        if decoded != strings:
            res.violation("C11/exported-file-decodes-to-other-strings", "ns=%r locale=%s: file %r table %r" % (ns, loc, decoded[:5], strings[:5]),
                          {"project": gen.project_to_jsonable(project)})
        else:
            res.sample({"ns": ns, "locale": loc, "table_size": len(strings), "first_strings": strings[:3]}, limit=4)


def check_tokens(res, project, tables, variant, tout):
    if tout.get("outcome") != "ok":
        if tout.get("outcome") == "panic":
            res.ev()
            res.violation("C11/codegen-panic/" + variant, str(tout.get("msg")), {"project": gen.project_to_jsonable(project)})
        return
    toks = tout["tokens"]
    sizes = {len(v) for v in tables.values()}
    sites = IDX_RE.findall(toks)
    for n_, i_ in sites:
        res.ev()
        n_, i_ = int(n_), int(i_)
        res.count("index-sites:" + variant)
        if i_ >= n_:
            res.violation("C11/generated-index-out-of-bounds/" + variant, "index_translations::<%d, %d>" % (n_, i_), {"project": gen.project_to_jsonable(project)})
        if n_ not in sizes:
            res.violation("C11/generated-table-size-unknown/" + variant, "index_translations::<%d, %d>, table sizes are %s" % (n_, i_, sorted(sizes)),
                          {"project": gen.project_to_jsonable(project)})
    for n_ in ARR_RE.findall(toks):
        res.ev()
        if int(n_) not in sizes:
            res.violation("C11/generated-array-size-unknown/" + variant, "array of %s strings, table sizes are %s" % (n_, sorted(sizes)),
                          {"project": gen.project_to_jsonable(project)})
    if variant in ("default", "dyn_ssr"):
        # baked tables: const STRINGS: &[&str; N] = &[..]; their contents must be one of the tables, in order
        baked = []
        for n_, body in baked_tables(toks):
            lits = rust_string_literals(body)
            baked.append(lits)
            res.ev()
            res.count("baked-tables:" + variant)
            if lits not in list(tables.values()) or int(n_) != len(lits):
                res.violation("C11/baked-table-differs/" + variant, "baked %r (N=%s) is none of the parser's tables" % (lits[:4], n_),
                              {"project": gen.project_to_jsonable(project)})
        if len(baked) != len(tables):
            res.violation("C11/baked-table-count-differs/" + variant, "%d baked tables, %d (namespace, locale) units" % (len(baked), len(tables)),
                          {"project": gen.project_to_jsonable(project)})


def rust_string_literals(body):
    """Decodes the Rust string literals of a printed token stream fragment."""
    out, i, n = [], 0, len(body)
    while i < n:
        if body[i] != '"':
            i += 1
            continue
        i += 1
        cur = []
        while i < n and body[i] != '"':
            c = body[i]
            if c != "\\":
                cur.append(c)
                i += 1
                continue
            e = body[i + 1]
            i += 2
            if e == "n":
                cur.append("\n")
            elif e == "r":
                cur.append("\r")
            elif e == "t":
                cur.append("\t")
            elif e == "0":
                cur.append("\0")
            elif e in "\\'\"":
                cur.append(e)
            elif e == "x":
                cur.append(chr(int(body[i:i + 2], 16)))
                i += 2
            elif e == "u":
                j = body.index("}", i)
                cur.append(chr(int(body[i + 1:j], 16)))
                i = j + 1
            else:
                cur.append("\\" + e)
        i += 1
        out.append("".join(cur))
    return out


def run(tier, seed, replay=None):
    res = Result("C11", tier, seed, RULE)
    rng = rng_for(seed, "C11")
    n = 200 if tier == "quick" else 8000
    cfg = GenCfg(p_fk=0.35, p_sub=0.3, max_depth=3, namespaces=0.35, p_absent=0.15, p_null=0.15, text_alphabet=ALPHABET, p_inherits=0.4)
    projs = [sweep_project()] + [projects.gen_valid_project(rng, cfg) for _ in range(n - 1)]
    # toml needs translations-path for the csr variant; harmless elsewhere
    for p in projs:
        p["cfg"]["translations_path"] = "i18n/{locale}.json"
    dirs, _ = workload.materialise(projs, "c11", seed=seed)
    outs = workload.run_projects(dirs, "json")
    bp = probe.build_probe()
    outroot = os.path.join(WORK, "c11-out")
    shutil.rmtree(outroot, ignore_errors=True)
    # every second output directory already holds an older, much longer export (a build script runs again and again)
    stale = json.dumps(["stale entry %d of an earlier export" % k for k in range(6000)])
    for i, p in enumerate(projs):
        if i % 2 == 0:
            for ns in (p["cfg"].get("namespaces") or [None]):
                for loc in gen.effective_locales(p["cfg"]):
                    path = os.path.join(outroot, str(i), loc + ".json") if ns is None else os.path.join(outroot, str(i), ns, loc + ".json")
                    os.makedirs(os.path.dirname(path), exist_ok=True)
                    with open(path, "w") as f:
                        f.write(stale)
    res.extra["output_dirs_with_an_older_export"] = (len(projs) + 1) // 2
    bres = probe.run_parallel(bp, [{"id": i, "dir": d, "out": os.path.join(outroot, str(i))} for i, d in enumerate(dirs)])
    ncg = n if tier == "thorough" else n // 4
    tok = {}
    for variant in ("default", "dyn_ssr", "dyn_csr", "dyn_hydrate"):
        cg = probe.codegen_probe(variant)
        r = probe.run_parallel(cg, [{"id": i, "dir": dirs[i], "tokens": True} for i in range(ncg)])
        tok[variant] = r
    for i, (p, o) in enumerate(zip(projs, outs)):
        tables = check_parser(res, p, o)
        if tables is None:
            continue
        check_files(res, p, tables, bres.get(i, {"outcome": "lost"}), os.path.join(outroot, str(i)))
        if i < ncg:
            for variant in tok:
                check_tokens(res, p, tables, variant, tok[variant].get(i, {}))
    res.extra["projects"] = n
    res.assumptions += ["Python's strict json parser as the definition of valid JSON", "token-stream sites are found by regular expression over the printed tokens"]
    return res.finish(min_events=2000)
