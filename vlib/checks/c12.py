"""C12 Locale negotiation honours the user's order of preference.

Sweep of `Locale::find_locale` over a closed universe of 12 language identifiers: every non-empty
supported set x every default x every request list of length <= 3 over the universe + junk entries
(thorough: ~8.9e7 evaluations, all of them; quick: a stride of the supported sets), judged by an
independent subtag-wise oracle; plus free-form BCP-47-ish strings judged by the Python oracle using
ICU4X's own parse of each entry; plus macro-generated enums in probe crates."""
import json
import subprocess

from .. import e2e, gen, probe
from ..common import Result, rng_for, Inconclusive, NCPU

RULE = ("closed universe {en,en-US,en-GB,fr,fr-FR,fr-CA,zh,zh-Hans,zh-Hant,zh-Hant-TW,de,de-DE-1996} + {und,*,xx-invalid-} + request-only {de-1996,fr-Latn,zh-Hant-HK}; an "
        "evaluation is one find_locale(supported, default, requests) judged by the oracle (result supported; matches the first "
        "matched request; exact beats less specific; default when nothing matches); non-trivial = request list of length >= 2; "
        "distinct = every (supported set, default, request list) is enumerated once")

REQUEST_ONLY = ["de-1996", "fr-Latn", "zh-Hant-HK"]
UNIVERSE = ["en", "en-US", "en-GB", "fr", "fr-FR", "fr-CA", "zh", "zh-Hans", "zh-Hant", "zh-Hant-TW", "de", "de-DE-1996"]


def parts(s):
    segs = s.split("-")
    p = {"lang": segs[0], "script": None, "region": None, "variants": []}
    for x in segs[1:]:
        if len(x) == 4 and x.isalpha():
            p["script"] = x.lower()
        elif len(x) == 2 and x.isalpha():
            p["region"] = x.lower()
        else:
            p["variants"].append(x.lower())
    return p


def matches(s, r):
    return ((s["lang"] is None or s["lang"] == r["lang"]) and (s["script"] is None or s["script"] == r["script"])
            and (s["region"] is None or s["region"] == r["region"]) and (not s["variants"] or s["variants"] == r["variants"]))


def judge(supported, requests_parsed, result):
    """supported: names (default first); requests_parsed: ICU's parse of each request or None."""
    if result not in supported:
        return "result %s is not supported" % result
    sup = [(n, parts(n)) for n in supported]
    for rp in requests_parsed:
        if rp is None:
            continue
        if rp["lang"] is None and not rp["script"] and not rp["region"] and not rp["variants"]:
            continue
        rp = dict(rp, variants=sorted(rp["variants"]))
        cands = [(n, sp) for n, sp in sup if matches(sp, rp)]
        if not cands:
            continue
        exact = [n for n, sp in cands if sp == rp]
        if exact:
            return None if result == exact[0] else "exact match %s passed over for %s" % (exact[0], result)
        return None if result in [n for n, _ in cands] else "request matched by %s but %s chosen" % ([n for n, _ in cands], result)
    return None if result == supported[0] else "nothing matches: expected default %s, got %s" % (supported[0], result)


def random_request(rng):
    r = rng.random()
    if r < 0.45:
        s = gen.pick(rng, UNIVERSE)
    elif r < 0.6:
        s = gen.pick(rng, ["en-AU", "fr-BE", "zh-CN", "zh-Hans-CN", "zh-Hant-HK", "de-AT", "de-1996", "de-DE", "pt-BR", "es", "ja-JP", "en-Latn-US", "fr-Latn", "zh-TW"])
    elif r < 0.75:
        s = gen.pick(rng, ["und", "*", "", " ", "xx-invalid-", "en-US-u-ca-gregory", "x-private", "i-klingon", "en--US", "-en", "en-", "e", "english", "12", "en-us-posix-extra-long-subtag"])
    else:
        s = gen.pick(rng, UNIVERSE)
    m = rng.random()
    if m < 0.15:
        s = s.upper()
    elif m < 0.3:
        s = s.lower()
    elif m < 0.4:
        s = s.replace("-", "_")
    elif m < 0.45:
        s = " " + s
    elif m < 0.5:
        s = s + ";q=0.8"
    return s


def run(tier, seed, replay=None):
    res = Result("C12", tier, seed, RULE)
    rt = probe.runtime_probe()
    # (1) sweep with the Rust-side oracle
    params = {"set_stride": 1 if tier == "thorough" else 23, "set_offset": seed, "maxlen": 3, "len3_stride": 1 if tier == "thorough" else 5, "threads": NCPU}
    p = subprocess.run([rt, "negotiate-sweep", json.dumps(params)], stdout=subprocess.PIPE, stderr=subprocess.PIPE, text=True, timeout=3600)
    if p.returncode != 0:
        raise Inconclusive("sweep failed: " + p.stderr[-500:])
    sw = json.loads(p.stdout)
    res.ev(sw["evaluations"])
    res.extra["sweep"] = {k: v for k, v in sw.items() if k not in ("samples", "violation_samples")}
    res.extra["exhaustive"] = tier == "thorough"
    res.extra["sweep_params"] = params
    for s in sw["samples"]:
        res.nontriv(s)
        res.sample(s, limit=5)
    for v in sw["violation_samples"]:
        res.violation("C12/order-of-preference-violated", "supported=%s (default first) requests=%s -> %s: %s" % (v["supported"], v["requests"], v["result"], v["why"]), v)
    if sw["violations"] and not sw["violation_samples"]:
        res.violation("C12/order-of-preference-violated", "%d violations" % sw["violations"], {})
    # the Rust oracle itself is cross-checked against the Python oracle on the sampled evaluations
    for s in sw["samples"]:
        res.ev()
        why = judge(s["supported"], [parts(r) if r in UNIVERSE + REQUEST_ONLY else None for r in s["requests"]], s["result"])
        if why:
            res.violation("C12/oracles-disagree", "python oracle rejects a result the rust oracle accepted: %s %s" % (s, why), s)
    # (2) free-form strings, judged in Python with ICU's own parse of each entry
    rng = rng_for(seed, "C12")
    n = 20000 if tier == "quick" else 1000000
    cases = []
    for i in range(n):
        k = rng.randint(1, 6)
        sup = rng.sample(UNIVERSE, k)
        reqs = [random_request(rng) for _ in range(rng.randint(0, 5))]
        cases.append({"id": i, "supported": sup, "requests": reqs})
    out = subprocess.run([rt, "negotiate"], input="\n".join(json.dumps(c) for c in cases) + "\n", stdout=subprocess.PIPE, text=True, timeout=1200)
    got = {}
    for line in out.stdout.split("\n"):
        if line.startswith("{"):
            d = json.loads(line)
            got[d["id"]] = d
    usable_seen = 0
    for c in cases:
        o = got.get(c["id"])
        res.ev()
        if o is None:
            res.inconclusive.append("no output for free-form case %d" % c["id"])
            continue
        usable_seen += sum(1 for x in o["parsed"] if x)
        why = judge(c["supported"], o["parsed"], o["result"])
        if len(c["requests"]) >= 2:
            res.nontriv(c)
        res.count("free-form")
        if why:
            res.violation("C12/free-form-request-list", "supported=%s requests=%r -> %s: %s" % (c["supported"], c["requests"], o["result"], why),
                          {"case": c, "observed": o})
        # find_matchs: every entry must match its request, most specific first is not required by the property
        for q, ms, pq in zip(c["requests"], o["matchs"], o["parsed"]):
            for m in ms:
                if m not in c["supported"] or pq is None or not matches(parts(m), dict(pq, variants=sorted(pq["variants"]))):
                    res.violation("C12/find_matchs-returns-non-matching-locale", "request %r -> %s, supported %s" % (q, ms, c["supported"]), {"case": c})
    res.extra["free_form_usable_entries"] = usable_seen
    # (3) macro-generated enums
    crates = []
    for ci in range(2 if tier == "quick" else 12):
        sup = rng.sample(UNIVERSE, rng.randint(3, 7))
        # every second configuration does not repeat the default in `locales` (it is the no-match fallback all the same)
        listed = rng.sample(sup, len(sup)) if ci % 2 == 0 else rng.sample(sup[1:], len(sup) - 1)
        proj = {"cfg": {"default": sup[0], "locales": listed, "namespaces": None, "inherits": {}, "locales_dir": None},
                "data": {(None, l): [["k", {"k": "lit", "ty": "str", "v": "v"}]] for l in sup}}
        c = e2e.ProbeCrate("c12_%d" % ci, proj)
        lists = [[random_request(rng) for _ in range(rng.randint(1, 4))] for _ in range(300)]
        arr = ", ".join("&[%s]" % ", ".join(e2e.rust_str(x) for x in l) for l in lists)
        c.add('    let lists: &[&[&str]] = &[%s];\n    for (i, l) in lists.iter().enumerate() { let r = <Locale as leptos_i18n::Locale>::find_locale(l); emit(0, &format!("{}", i), leptos_i18n::Locale::as_str(r)); }' % arr,
              {"supported": sup, "lists": lists})
        crates.append(c)
    root = e2e.write_workspace("c12", crates, seed=seed)
    status, secs, _ = e2e.build_workspace(root, crates)
    # ICU's parse of the same entries comes from the runtime probe
    for c in crates:
        st = status[c.name]
        if not st["ok"]:
            res.inconclusive.append("probe crate %s did not build: %s" % (c.name, "\n".join(st["messages"])[:500]))
            continue
        obs, done, rc, err = e2e.run_crate(st["exe"])
        exp = c.expect[0]
        pc = [{"id": i, "supported": exp["supported"], "requests": l} for i, l in enumerate(exp["lists"])]
        out = subprocess.run([rt, "negotiate"], input="\n".join(json.dumps(x) for x in pc) + "\n", stdout=subprocess.PIPE, text=True, timeout=600)
        parsed = {json.loads(l)["id"]: json.loads(l)["parsed"] for l in out.stdout.split("\n") if l.startswith("{")}
        for i, l in enumerate(exp["lists"]):
            res.ev()
            o = obs.get(0, {}).get(str(i))
            if o is None:
                res.inconclusive.append("missing enum observation")
                continue
            res.count("macro-generated-enum")
            why = judge(exp["supported"], parsed[i], o["v"])
            if why:
                res.violation("C12/generated-enum-request-list", "supported=%s requests=%r -> %s: %s" % (exp["supported"], l, o["v"], why), {"supported": exp["supported"], "requests": l})
    res.assumptions += ["ICU4X's LanguageIdentifier parser decides which entries are usable", "the subtag-wise matching rule of DESIGN section 3/C12 (candidates for one request are not ranked unless one is exact)"]
    return res.finish(min_events=10000)
