"""C13 Locale identifiers round-trip through every representation.

Probe crates declare many locale sets (one `load_locales!` project plus `declare_locales!` modules);
a generic observer dumps as_str / Display / FromStr / serde / cookie codec / ICU locale / langid /
direction / get_all / Default for the enum and for a scoped locale, and how every *near* string
parses. Python judges against the configured names; text direction is checked against ICU4X's
LocaleDirectionality evaluated at run time in the probe and a hand table."""
import json

from .. import e2e, gen
from ..common import Result, rng_for

RULE = ("locale sets with regions, scripts, variants, near-duplicates and RTL languages; an evaluation is one (set, locale, "
        "representation) round trip or one near string; non-trivial = the set holds two names where one is a prefix of the other, "
        "or the string differs from a name only by case/whitespace/separator; distinct by (set, string)")

SETS = [
    ["en", "fr"], ["en", "en-US", "en-GB"], ["fr", "fr-CA", "fr-FR", "en"], ["ar", "he", "fa", "ur", "en"], ["zh", "zh-Hans", "zh-Hant", "zh-Hant-TW"],
    ["sr-Latn", "sr-Cyrl", "sr"], ["de", "de-DE", "de-AT", "de-CH"], ["ja", "ko", "ru", "pl"], ["pt-BR", "pt", "es-419", "es"], ["en-US", "en"],
    ["he-IL", "ar-EG", "en-GB"], ["it"], ["de-DE-1996", "de"], ["nl", "nl-BE", "af"], ["yi", "ps", "sd", "ug", "dv", "en"], ["uz-Arab", "uz-Cyrl", "uz-Latn", "uz"],
]
# one language in scripts of different direction (what CLDR assigns depends on the whole identifier, not the language)
MIXED = [["az", "az-Arab", "en"], ["pa", "pa-Arab", "pa-Guru"], ["ks-Deva", "ks", "ur"], ["sd", "sd-Deva", "sd-Arab", "hi"], ["ms-Arab", "ms", "id"],
         ["tg", "tg-Arab", "fa-AF"], ["ku", "ku-Arab", "ckb"], ["ha-Arab", "ha", "ha-NE"], ["he-Latn", "he", "yi-Latn"], ["en-Arab", "en", "ar-Latn", "ar"]]
# configured names that are valid identifiers but not in canonical casing / separators: every representation keeps the name as
# configured, only the ICU locale / language identifier are the canonical forms
NONCANON = [["en", "pt-br", "zh-hant"], ["fr", "en-us", "zh-hant-tw", "de-de-1996"], ["es", "sr-latn-rs", "pt-PT"]]
SETS = SETS + NONCANON + MIXED
RTL = {"ar", "he", "fa", "ur", "yi", "ps", "sd", "ug", "dv"}
LTR = {"en", "fr", "ja", "ru", "zh", "de", "it", "pt", "es", "pl", "ko", "nl", "af", "sr"}

OBSERVE_RS = r'''
fn jesc(s: &str) -> String { js(s) }

fn observe<L: leptos_i18n::Locale, SL: leptos_i18n::Locale<L>>(id: u32, scoped: impl Fn(L) -> SL, near: &[&str]) {
    use std::str::FromStr;
    use leptos_i18n::reexports::icu::locid::{LanguageIdentifier, Locale as IcuLocale};
    let ld = icu_locid_transform::LocaleDirectionality::new_with_expander(icu_locid_transform::LocaleExpander::new_extended());
    let all: Vec<String> = L::get_all().iter().map(|l| l.as_str().to_string()).collect();
    emit(id, "get_all", &all.join(","));
    emit(id, "default", L::default().as_str());
    for l in L::get_all().iter().copied() {
        let n = l.as_str();
        let sl = scoped(l);
        emit(id, &format!("display:{n}"), &l.to_string());
        emit(id, &format!("as_ref_str:{n}"), AsRef::<str>::as_ref(&l));
        emit(id, &format!("from_str:{n}"), &L::from_str(n).map(|x| x.as_str().to_string()).unwrap_or_else(|_| "<err>".into()));
        let enc = serde_json::to_string(&l).unwrap();
        emit(id, &format!("serde_enc:{n}"), &enc);
        emit(id, &format!("serde_dec:{n}"), serde_json::from_str::<L>(&enc).map(|x| x.as_str()).unwrap_or("<err>"));
        // the three ways a deserializer may hand a string over: borrowed (above), owned, transient
        emit(id, &format!("serde_dec_value:{n}"), serde_json::from_value::<L>(serde_json::Value::String(n.to_string())).map(|x| x.as_str()).unwrap_or("<err>"));
        emit(id, &format!("serde_dec_reader:{n}"), serde_json::from_reader::<_, L>(enc.as_bytes()).map(|x| x.as_str()).unwrap_or("<err>"));
        // compact, not self-describing formats: what is written must be what the deserialiser reads
        emit(id, &format!("bincode:{n}"), &bincode::serialize(&l).ok().and_then(|b| bincode::deserialize::<L>(&b).ok()).map(|x| x.as_str().to_string()).unwrap_or_else(|| "<err>".into()));
        emit(id, &format!("postcard:{n}"), &postcard::to_allocvec(&l).ok().and_then(|b| postcard::from_bytes::<L>(&b).ok()).map(|x| x.as_str().to_string()).unwrap_or_else(|| "<err>".into()));
        emit(id, &format!("scoped_postcard:{n}"), &postcard::to_allocvec(&sl).ok().and_then(|b| postcard::from_bytes::<SL>(&b).ok()).map(|x| x.as_str().to_string()).unwrap_or_else(|| "<err>".into()));
        let escaped = format!("\"{}\"", n.chars().map(|c| format!("\\u{:04x}", c as u32)).collect::<String>());
        emit(id, &format!("serde_dec_escaped:{n}"), serde_json::from_str::<L>(&escaped).map(|x| x.as_str()).unwrap_or("<err>"));
        let c = <codee::string::FromToStringCodec as codee::Encoder<L>>::encode(&l).unwrap();
        emit(id, &format!("codec_enc:{n}"), &c);
        emit(id, &format!("codec_dec:{n}"), &<codee::string::FromToStringCodec as codee::Decoder<L>>::decode(&c).map(|x| x.as_str().to_string()).unwrap_or_else(|_| "<err>".into()));
        emit(id, &format!("icu:{n}"), &l.as_icu_locale().to_string());
        emit(id, &format!("icu_expected:{n}"), &n.parse::<IcuLocale>().map(|x| x.to_string()).unwrap_or_else(|_| "<unparseable>".into()));
        emit(id, &format!("langid:{n}"), &l.as_langid().to_string());
        emit(id, &format!("as_ref_langid:{n}"), &AsRef::<LanguageIdentifier>::as_ref(&l).to_string());
        emit(id, &format!("as_ref_icu:{n}"), &AsRef::<IcuLocale>::as_ref(&l).to_string());
        emit(id, &format!("direction:{n}"), l.direction().as_str());
        let want = match ld.get(l.as_langid()) { Some(icu_locid_transform::Direction::RightToLeft) => "rtl", Some(icu_locid_transform::Direction::LeftToRight) => "ltr", _ => "auto" };
        emit(id, &format!("direction_icu:{n}"), want);
        // the same through the scoped locale
        emit(id, &format!("scoped_as_str:{n}"), sl.as_str());
        emit(id, &format!("scoped_display:{n}"), &sl.to_string());
        emit(id, &format!("scoped_icu:{n}"), &sl.as_icu_locale().to_string());
        emit(id, &format!("scoped_direction:{n}"), sl.direction().as_str());
        emit(id, &format!("scoped_base:{n}"), sl.to_base_locale().as_str());
        emit(id, &format!("scoped_serde:{n}"), &serde_json::to_string(&sl).unwrap());
        emit(id, &format!("scoped_from_str:{n}"), &SL::from_str(n).map(|x| x.as_str().to_string()).unwrap_or_else(|_| "<err>".into()));
    }
    let sall: Vec<String> = SL::get_all().iter().map(|l| l.as_str().to_string()).collect();
    emit(id, "scoped_get_all", &sall.join(","));
    for (i, s) in near.iter().enumerate() {
        emit(id, &format!("near_from_str:{i}"), &L::from_str(s).map(|x| x.as_str().to_string()).unwrap_or_else(|_| "<err>".into()));
        emit(id, &format!("near_serde:{i}"), &serde_json::from_str::<L>(&serde_json::to_string(s).unwrap()).map(|x| x.as_str().to_string()).unwrap_or_else(|_| "<err>".into()));
        emit(id, &format!("near_serde_value:{i}"), &serde_json::from_value::<L>(serde_json::Value::String(s.to_string())).map(|x| x.as_str().to_string()).unwrap_or_else(|_| "<err>".into()));
        emit(id, &format!("near_codec:{i}"), &<codee::string::FromToStringCodec as codee::Decoder<L>>::decode(s).map(|x| x.as_str().to_string()).unwrap_or_else(|_| "<err>".into()));
    }
}
'''


def near_strings(rng, names, others):
    out = []
    for n in names:
        out += [n.upper(), n.lower(), n.title(), n[:-1], n + "x", n + "-", "-" + n, n.replace("-", "_"), n.replace("-", " -"), " " + n + " ", "\t" + n + "\n",
                n + "-US", n.split("-")[0], n + " " + n, n + ",", '"' + n + '"', n.replace("-", ""), "x" + n]
    out += ["", " ", "und", "*", "default", "Locale::en", "0", "null"] + others[:6]
    seen, res = set(), []
    for s in out:
        if s not in seen:
            seen.add(s)
            res.append(s)
    return res


def decl_module(i, names):
    body = ",\n".join("        %s: { k: \"v\", grp: { inner: \"x\" } }" % e2e.ident(n) for n in names)
    return ("mod m%d {\n    leptos_i18n::declare_locales! {\n        path: leptos_i18n,\n        default: %s,\n        locales: [%s],\n%s\n    }\n}\n"
            % (i, json.dumps(names[0]), ", ".join(json.dumps(n) for n in names), body))


def run(tier, seed, replay=None):
    res = Result("C13", tier, seed, RULE)
    rng = rng_for(seed, "C13")
    ncrates = 1 if tier == "quick" else 6
    crates = []
    for ci in range(ncrates):
        sets = [list(s) for s in (SETS if tier == "thorough" else rng.sample(SETS[:-len(MIXED) - len(NONCANON)], 5) + rng.sample(NONCANON, 2) + rng.sample(MIXED, 4))]
        for s in sets:
            rng.shuffle(s)
        main_set = sets[0]
        listed = list(main_set)
        rng.shuffle(listed)
        proj = {"cfg": {"default": main_set[0], "locales": listed if rng.random() < 0.7 else [l for l in listed if l != main_set[0]], "namespaces": None, "inherits": {}, "locales_dir": None},
                "data": {(None, l): [["k", {"k": "lit", "ty": "str", "v": "v"}], ["grp", {"k": "sub", "tree": [["inner", {"k": "lit", "ty": "str", "v": "x"}]]}]] for l in main_set}}
        c = e2e.ProbeCrate("c13_%d" % ci, proj)
        c.extra_deps = 'bincode = "1.3.3"\npostcard = { version = "1.1.3", default-features = false, features = ["alloc"] }\n' 
        c.extra_items = OBSERVE_RS + "\n".join(decl_module(i, s) for i, s in enumerate(sets[1:], 1))
        for i, s in enumerate(sets):
            others = [n for t in SETS for n in t if n not in s]
            rng.shuffle(others)
            near = near_strings(rng, s, others)
            arr = ", ".join(e2e.rust_str(x) for x in near)
            path = "Locale" if i == 0 else "m%d::i18n::Locale" % i
            mac = "scope_locale" if i == 0 else "m%d::i18n::scope_locale" % i
            c.add('    observe::<%s, _>(%d, |l| %s!(l, grp), &[%s]);' % (path, c.next_id, mac, arr), {"names": s, "near": near})
        crates.append(c)
    root = e2e.write_workspace("c13", crates, seed=seed)
    status, secs, _ = e2e.build_workspace(root, crates)
    res.extra["e2e"] = {"build_s": round(secs, 1), "crates": len(crates)}
    for c in crates:
        st = status[c.name]
        if not st["ok"]:
            res.ev()
            res.violation("C13/valid-locale-sets-do-not-compile", "crate %s: %s" % (c.name, "\n".join(st["messages"])[:3000]), {"root": root})
            continue
        obs, done, rc, err = e2e.run_crate(st["exe"])
        if not done:
            res.inconclusive.append("probe crate %s did not finish: %s" % (c.name, err[-300:]))
        for oid, exp in c.expect.items():
            got = {k: v.get("v") for k, v in obs.get(oid, {}).items()}
            names, near = exp["names"], exp["near"]
            if "*" in obs.get(oid, {}):
                res.ev()
                res.violation("C13/observer-panicked", str(obs[oid]["*"]), {"names": names})
                continue

            def expect(key, want, sig):
                res.ev()
                res.count(sig.split("/")[1])
                if got.get(key) != want:
                    res.violation(sig, "set %s: %s = %r, expected %r" % (names, key, got.get(key), want), {"names": names, "key": key, "observed": got.get(key), "expected": want})
            res.ev()
            ga = (got.get("get_all") or "").split(",")
            if ga[0] != names[0] or sorted(ga) != sorted(names) or len(ga) != len(names):
                res.violation("C13/get_all-not-a-permutation-with-default-first", "configured %s (default first), get_all %s" % (names, ga), {"names": names})
            expect("default", names[0], "C13/default-differs")
            expect("scoped_get_all", got.get("get_all"), "C13/scoped-get_all-differs")
            prefix_pair = any(a != b and b.startswith(a) for a in names for b in names)
            for n in names:
                if prefix_pair:
                    res.nontriv([names, n])
                for key in ("display", "as_ref_str", "from_str", "serde_dec", "serde_dec_value", "serde_dec_reader", "serde_dec_escaped", "bincode", "postcard", "scoped_postcard", "codec_enc", "codec_dec", "scoped_as_str", "scoped_display", "scoped_base", "scoped_from_str"):
                    expect("%s:%s" % (key, n), n, "C13/%s-does-not-round-trip" % key)
                expect("serde_enc:" + n, json.dumps(n), "C13/serde_enc-does-not-round-trip")
                expect("scoped_serde:" + n, json.dumps(n), "C13/scoped_serde-does-not-round-trip")
                want_icu = got.get("icu_expected:" + n)
                for key in ("icu", "as_ref_icu", "scoped_icu"):
                    expect("%s:%s" % (key, n), want_icu, "C13/%s-differs-from-parsed-name" % key)
                expect("langid:" + n, want_icu, "C13/langid-differs-from-parsed-name")
                expect("as_ref_langid:" + n, want_icu, "C13/as_ref_langid-differs-from-parsed-name")
                expect("direction:" + n, got.get("direction_icu:" + n), "C13/direction-differs-from-cldr")
                expect("scoped_direction:" + n, got.get("direction_icu:" + n), "C13/scoped_direction-differs-from-cldr")
                lang = n.split("-")[0]
                if "-" not in n or n.count("-") == 1 and len(n.split("-")[1]) == 2:
                    if lang in RTL:
                        expect("direction:" + n, "rtl", "C13/direction-hand-table")
                    elif lang in LTR:
                        expect("direction:" + n, "ltr", "C13/direction-hand-table")
            for i, s in enumerate(near):
                want = s.strip() if s.strip() in names else "<err>"
                res.nontriv([names, s])
                expect("near_from_str:%d" % i, want, "C13/near-string-parses-to-a-locale" if want == "<err>" else "C13/trimmed-name-rejected")
                expect("near_codec:%d" % i, want, "C13/near-string-decodes-to-a-locale" if want == "<err>" else "C13/trimmed-name-rejected-by-codec")
                # serde: unknown -> default; never a non-default locale
                wants = s.strip() if s.strip() in names else names[0]
                expect("near_serde:%d" % i, wants, "C13/near-string-deserialises-to-non-default-locale")
                expect("near_serde_value:%d" % i, wants, "C13/near-string-deserialises-to-non-default-locale")
            res.sample({"set": names, "get_all": ga, "near_strings_tried": len(near)}, limit=4)
    res.assumptions += ["ICU4X LocaleDirectionality (compiled data) is the CLDR oracle for direction", "a name with surrounding whitespace counts as that name (both the config and from_str trim)"]
    return res.finish(min_events=1000)
