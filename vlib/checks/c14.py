"""C14 URL locale prefixes are matched by whole segment and rewritten reversibly.

The private path functions of leptos_i18n_router (reached through the `verif_hooks` feature) and a
real I18nRoute route tree built natively are driven with locale sets whose names are prefixes of
each other and of ordinary words, several spellings of the base path, localized / param / optional /
splat routes, and random histories of locale switches. Oracle: a segment-wise URL model and the
round-trip law switch(switch(u, A->B), B->A) == u."""
import json
import subprocess

from .. import gen, probe
from ..common import Result, rng_for, Inconclusive

RULE = ("3 locale sets (en/en-US/fr/fr-CA/it, fr/en/en-GB, en-US/en/de) x 7 base-path spellings x paths built from route shapes "
        "and decoy words x histories of 1..6 switches; an evaluation is one path-function result or one round trip; non-trivial = "
        "the path holds a segment that merely starts with a locale name, a localized segment, a query or a fragment; distinct by "
        "(set, base, url, switch)")

SETS = [
    {"default": "en", "names": ["en", "fr", "en-US", "fr-CA", "it"]},
    {"default": "fr", "names": ["fr", "en", "en-GB"]},
    {"default": "en-US", "names": ["en-US", "en", "de"]},
]
BASES = ["/", "", "app", "/app", "app/", "/app/", "/a/b"]
DECOYS = ["english", "items", "item", "french", "frites", "enable", "en-USA", "fr-CAN", "de-luxe", "ende", "it", "en", "fr", "x", "a-propos", "about", "search",
          "é", "user%20name", "a.b", "EN", "En-us"]


def segs(p):
    return [s for s in p.split("/") if s]


def match_route(rest, pattern):
    """Binding of path segments to a route pattern (list of [kind, name]) or None; natural semantics with backtracking."""
    def go(i, j, acc):
        while j < len(pattern) and (pattern[j][0] == "unit" or (pattern[j][0] == "static" and pattern[j][1] == "")):
            acc = acc + [None]
            j += 1
        if j == len(pattern):
            return acc if i == len(rest) else None
        kind, name = pattern[j]
        if kind == "splat":
            return acc + [rest[i:]]
        if kind == "optional":
            if i < len(rest):
                r = go(i + 1, j + 1, acc + [[rest[i]]])
                if r is not None:
                    return r
            return go(i, j + 1, acc + [[]])
        if i >= len(rest):
            return None
        if kind == "static":
            if rest[i] != name:
                return None
            return go(i + 1, j + 1, acc + [[rest[i]]])
        return go(i + 1, j + 1, acc + [[rest[i]]])      # param
    return go(0, 0, [])


def translate(rest, old_routes, new_routes):
    for old, new in zip(old_routes, new_routes):
        b = match_route(rest, old)
        if b is None:
            continue
        out = []
        for (kind, name), bound in zip(new, b):
            if bound is None:
                continue
            if kind == "static":
                if bound:
                    out.append(name)
            else:
                out += bound
        return out
    return None


def locale_of(path, base, names):
    ps, bs = segs(path), segs(base)
    if ps[:len(bs)] != bs:
        return None
    rest = ps[len(bs):]
    return rest[0] if rest and rest[0] in names else None


def switch(path, search, frag, base, a, b, default, table):
    ps, bs = segs(path), segs(base)
    rest = ps[len(bs):]
    if a is not None and rest[:1] == [a]:
        rest = rest[1:]
    new_rest = translate(rest, table[a or default], table[b])
    if new_rest is None:
        new_rest = rest
    out = "/" + "/".join(bs + ([b] if b != default else []) + new_rest)
    if search:
        out += "?" + search
    if frag:
        out += "#" + frag
    return out


def canonical(base, loc, default, rest):
    return "/" + "/".join(segs(base) + ([loc] if loc != default else []) + rest)


def rand_rest(rng, table, loc, names):
    """path segments (after the locale prefix): an instance of one of the locale's routes, or decoy words."""
    r = rng.random()
    if r < 0.6:
        route = gen.pick(rng, table[loc])
        out = []
        for kind, name in route:
            if kind == "static":
                if name:
                    out.append(name)
            elif kind == "param":
                out.append(gen.pick(rng, DECOYS + ["42", "john"]))
            elif kind == "optional":
                if rng.random() < 0.5:
                    out.append(gen.pick(rng, ["maybe", "hello", "en", "end"]))
            elif kind == "splat":
                out += [gen.pick(rng, DECOYS) for _ in range(rng.randint(0, 3))]
        return out
    out = [gen.pick(rng, DECOYS + names) for _ in range(rng.randint(0, 4))]
    # a first segment equal to a locale name *is* a locale prefix: not a decoy
    while out and out[0] in names:
        out[0] = gen.pick(rng, DECOYS)
    return out


class Driver:
    def __init__(self, binary):
        self.binary = binary
        self.batch = []

    def run(self, reqs):
        inp = "\n".join(json.dumps(r) for r in reqs) + "\n"
        p = subprocess.run([self.binary], input=inp, stdout=subprocess.PIPE, stderr=subprocess.PIPE, text=True, timeout=1200)
        out = {}
        for line in p.stdout.split("\n"):
            if line.startswith("{"):
                d = json.loads(line)
                out[d["id"]] = d
        if len(out) != len(reqs):
            raise Inconclusive("router probe answered %d of %d requests: %s" % (len(out), len(reqs), p.stderr[-300:]))
        return out


def run(tier, seed, replay=None):
    res = Result("C14", tier, seed, RULE)
    rng = rng_for(seed, "C14")
    drv = Driver(probe.router_probe())
    # the real per-locale segment tables and generated routes
    reqs = []
    for si in range(len(SETS)):
        reqs.append({"id": "t%d" % si, "set": si, "op": "table", "base": "/"})
        reqs.append({"id": "r%d" % si, "set": si, "op": "routes", "base": "/"})
    o = drv.run(reqs)
    tables = []
    for si, S in enumerate(SETS):
        t = {l: [[seg for seg in route[1:]] for route in routes] for l, routes in o["t%d" % si]["table"].items()}
        tables.append(t)
        # N+1 families with the documented prefixes
        res.ev()
        want = []
        for l in S["names"]:
            for route in o["t%d" % si]["table"][l]:
                want.append([["static", l]] + route[1:])
        for route in o["t%d" % si]["table"][S["default"]]:
            want.append(route[1:])
        got = o["r%d" % si]["routes"]
        if got != want:
            res.violation("C14/generated-route-families-differ", "set %d: expected %d routes (N+1 families), got %d; first difference: %s" % (
                si, len(want), len(got), next(((a, b) for a, b in zip(want, got) if a != b), None)), {"set": si})
        res.count("route-families-checked", len(S["names"]) + 1)
    n_hist = 3000 if tier == "quick" else 60000
    reqs, plan = [], []
    rid = 0
    for h in range(n_hist):
        si = rng.randrange(len(SETS))
        S, table = SETS[si], tables[si]
        base = gen.pick(rng, BASES)
        cur_loc = gen.pick(rng, S["names"])
        rest = rand_rest(rng, table, cur_loc, S["names"])
        search = gen.pick(rng, ["", "", "q=1", "lang=/en/&x=fr", "a=b&c=/%s/" % S["names"][-1]])
        frag = gen.pick(rng, ["", "", "top", "/en/section", "fr"])
        url = canonical(base, cur_loc, S["default"], rest)
        # locale read from the URL
        reqs.append({"id": rid, "set": si, "op": "locale_from_path", "path": url, "base": base})
        plan.append((rid, "locale", si, base, url, None))
        rid += 1
        # decoy: a first segment that merely starts with a locale name
        decoy_url = "/" + "/".join(segs(base) + [gen.pick(rng, DECOYS)] + rest)
        reqs.append({"id": rid, "set": si, "op": "locale_from_path", "path": decoy_url, "base": base})
        plan.append((rid, "locale", si, base, decoy_url, None))
        rid += 1
        reqs.append({"id": rid, "set": si, "op": "match_nested", "path": "/" + "/".join(([cur_loc] if rng.random() < 0.7 else [gen.pick(rng, DECOYS)]) + rest), "base": "/"})
        plan.append((rid, "match", si, "/", reqs[-1]["path"], rest))
        rid += 1
        # a prefix-less URL is a URL of the default locale: an instance of one of the default locale's routes must be matched (with
        # an empty locale prefix) whatever locales were tried before it
        drest = rand_rest(rng, table, S["default"], S["names"])
        if translate(drest, table[S["default"]], table[S["default"]]) is not None and not (drest[:1] and drest[0] in S["names"]):
            reqs.append({"id": rid, "set": si, "op": "match_nested", "path": "/" + "/".join(drest), "base": "/"})
            plan.append((rid, "match-default", si, "/", reqs[-1]["path"], drest))
            rid += 1
        # a history of switches; each step is asked with the URL the *model* expects (so one bad step does not cascade)
        steps = rng.randint(1, 6)
        if cur_loc == S["default"] and rng.random() < 0.5:
            # the default locale may also be written explicitly (/en/about is one of the N+1 route families): leaving it
            # rewrites that prefix like any other; the way back yields the prefix-less form, so no round-trip law here
            xurl = "/" + "/".join(segs(base) + [cur_loc] + rest)
            new_loc = gen.pick(rng, [l for l in S["names"] if l != cur_loc])
            reqs.append({"id": rid, "set": si, "op": "new_path", "path": xurl, "search": search, "hash": frag, "base": base, "new": new_loc, "old": cur_loc})
            want = switch(xurl, search, frag, base, cur_loc, new_loc, S["default"], table)
            plan.append((rid, "switch-explicit-default", si, base, (xurl, search, frag, cur_loc, new_loc), want))
            rid += 1
        for _ in range(steps):
            new_loc = gen.pick(rng, [l for l in S["names"] if l != cur_loc])
            reqs.append({"id": rid, "set": si, "op": "new_path", "path": url, "search": search, "hash": frag, "base": base, "new": new_loc, "old": cur_loc})
            want = switch(url, search, frag, base, cur_loc, new_loc, S["default"], table)
            plan.append((rid, "switch", si, base, (url, search, frag, cur_loc, new_loc), want))
            rid += 1
            nxt = want.split("?")[0].split("#")[0]
            # and back again: the round-trip law. It is only stated for URLs of the application's routes: a path that is
            # no route under A but happens to spell a localized route of B is legitimately translated on the way back.
            rest_a = segs(url)[len(segs(base)):]
            rest_a = rest_a[1:] if rest_a[:1] == [cur_loc] and cur_loc != S["default"] else rest_a
            rest_b = segs(nxt)[len(segs(base)):]
            rest_b = rest_b[1:] if rest_b[:1] == [new_loc] and new_loc != S["default"] else rest_b
            lawful = translate(rest_a, table[cur_loc], table[cur_loc]) is not None or translate(rest_b, table[new_loc], table[new_loc]) is None
            if rest_b[:1] and rest_b[0] in S["names"]:
                lawful = False
            if not lawful:
                url, cur_loc = nxt, new_loc
                continue
            reqs.append({"id": rid, "set": si, "op": "new_path", "path": nxt, "search": search, "hash": frag, "base": base, "new": cur_loc, "old": new_loc})
            back = url + ("?" + search if search else "") + ("#" + frag if frag else "")
            plan.append((rid, "roundtrip", si, base, (nxt, search, frag, new_loc, cur_loc), back))
            rid += 1
            url, cur_loc = nxt, new_loc
    out = drv.run(reqs)
    for rid, kind, si, base, arg, want in plan:
        o = out[rid]
        S = SETS[si]
        res.ev()
        res.count(kind)
        if "panic" in o:
            res.violation("C14/panic/" + kind, "%s %r: %s" % (kind, arg, o["panic"]), {"set": si, "base": base, "arg": arg})
            continue
        if kind == "locale":
            exp = locale_of(arg, base, S["names"])
            first = (segs(arg)[len(segs(base)):] or [""])[0]
            if any(first.startswith(n) and first != n for n in S["names"]) or any(n.startswith(m) and n != m for n in [first] for m in S["names"]):
                res.nontriv(["locale", si, base, arg])
            if o["locale"] != exp:
                res.violation("C14/locale-read-from-non-matching-segment" if exp is None else "C14/wrong-locale-read-from-url",
                              "locales=%s base=%r url=%r: read %r, expected %r" % (S["names"], base, arg, o["locale"], exp),
                              {"set": si, "base": base, "url": arg, "observed": o["locale"], "expected": exp})
        elif kind == "match-default":
            res.nontriv([kind, si, arg])
            if not (o.get("matched") and o.get("prefix") in ("", "/")):
                res.violation("C14/default-locale-route-not-matched-without-prefix", "path %r is an instance of a route of the default locale %s: %s" % (arg, S["default"], o),
                              {"set": si, "path": arg})
        elif kind == "match":
            first = segs(arg)[0] if segs(arg) else ""
            if o.get("matched") and o.get("prefix") not in ("", "/" + first):
                res.violation("C14/route-matched-partial-segment", "path %r matched with prefix %r" % (arg, o.get("prefix")), {"set": si, "path": arg})
            elif o.get("matched") and first not in S["names"] and o.get("prefix") != "":
                res.violation("C14/route-matched-partial-segment", "path %r matched with prefix %r" % (arg, o.get("prefix")), {"set": si, "path": arg})
            elif first in S["names"] and translate(want, tables[si][first], tables[si][first]) is not None and not (o.get("matched") and o.get("prefix") == "/" + first):
                res.violation("C14/locale-route-not-matched", "path %r should match under locale %s: %s" % (arg, first, o), {"set": si, "path": arg})
        else:
            url, search, frag, a, b = arg
            res.nontriv([kind, si, base, url, a, b])
            if o["path"] != want:
                sig = "C14/%s-differs" % ("switch" if kind.startswith("switch") else "round-trip")
                cls = "base-without-leading-slash" if (base and not base.startswith("/")) else ("base-%s" % ("root" if base in ("/", "") else "nested"))
                res.violation(sig + "/" + cls, "locales=%s base=%r %s -> %s url=%r ?%s #%s\n  expected %r\n  observed %r" % (
                    S["names"], base, a, b, url, search, frag, want, o["path"]),
                    {"set": si, "base": base, "url": url, "search": search, "hash": frag, "from": a, "to": b, "expected": want, "observed": o["path"]})
            else:
                res.sample({"base": base, "from": a, "to": b, "url": url + ("?" + search if search else "") + ("#" + frag if frag else ""), "new_url": want}, limit=6)
    res.extra["histories"] = n_hist
    res.assumptions += ["browser effects (request_animation_frame, popstate) cannot run natively: only the pure path layer and route matching are monitored",
                        "canonical URLs only (no empty segments, no trailing slash)"]
    return res.finish(min_events=1000)
