"""C15 Initial locale resolution follows the documented precedence.

Full product of {cookie absent / each valid locale / invalid values} x {cookies enabled or not} x
{default or custom cookie name} x Accept-Language headers x {no parent, parent at each locale} x
{initial locale given or not} for main contexts, sub-contexts (function and generated
<I18nSubContextProvider>) and resolve_locale, created natively with the ssr feature and injected
header getters. The "best match for the header" term is judged with the C12 oracle on the header
entries as ICU4X reads them (trimmed)."""
import itertools
import json
import zlib
import subprocess

from .. import probe
from ..common import Result, rng_for, Inconclusive
from . import c12

RULE = ("full product of cookie x enabled x cookie name x header x parent x initial over 3 locale sets; an evaluation is one created "
        "context's initial locale (plus its Set-Cookie events); non-trivial = at least two sources disagree (cookie vs header vs "
        "parent vs initial); distinct = every combination is enumerated once")

SETS = [
    {"default": "en", "names": ["en", "fr", "fr-CA", "de"]},
    {"default": "fr", "names": ["fr", "en"]},
    {"default": "en-US", "names": ["en-US", "en", "zh-Hant"]},
]
HEADERS = [None, "fr", "fr-CA, fr;q=0.9, en;q=0.8", "fr-CA,fr;q=0.9,en;q=0.8", "de-CH, de;q=0.7", "xx, zz;q=0.5", "*, fr;q=0.8", "en_US.UTF-8, C, de", "*",
           "en-US,en;q=0.9", "not a header;;;", "zh-TW, zh-Hant;q=0.9, en;q=0.1", "xx, fr", "  en  ", ", de", "es,,fr", "fr_FR, zh-Hant, en", "*;q=0.1, zh-Hant", "zh-Hans, en;q=0.5", "zh-Latn-TW, fr-Arab, en-Cyrl"]
INVALID = ["xx", "EN", "", "fr-", "en_US", "default"]
DEFAULT_COOKIE = "i18n_pref_locale"


def cookie_header(name, value, decoys):
    parts = list(decoys)
    if value is not None:
        parts.insert(1, "%s=%s" % (name, value))
    return "; ".join(parts) if parts else None


def parse_cookies(h):
    out = {}
    for part in (h or "").split(";"):
        if "=" in part:
            k, v = part.strip().split("=", 1)
            out.setdefault(k, v)
    return out


def header_ok(S, hinfo, result):
    """None if `result` is an acceptable best match for the header."""
    if hinfo is None:
        return None if result == S["default"] else "no header: expected default %s" % S["default"]
    return c12.judge(S["names"], hinfo["parsed"], result)


def cases_for(si, S, rng, tier):
    names = S["names"]
    cookie_values = [None] + names + INVALID
    out = []
    for cv, enabled, cname, hdr in itertools.product(cookie_values, [True, False], [None, "my_locale"], HEADERS):
        out.append({"kind": "root", "cookie": cv, "enabled": enabled, "cname": cname, "header": hdr})
        if hdr in HEADERS[:8]:
            out.append({"kind": "resolve", "cookie": cv, "enabled": enabled, "cname": cname, "header": hdr})
    for cv, cname, hdr, parent, initial, comp in itertools.product(cookie_values, [None, "sub_locale"], HEADERS[:9], [None] + names, [None, names[-1], names[0]], [False, True]):
        if comp and (zlib.crc32(repr((cv, cname, hdr, parent, initial)).encode()) % 4) and tier == "quick":
            continue
        out.append({"kind": "sub", "cookie": cv, "cname": cname, "header": hdr, "parent": parent, "initial": initial, "component": comp})
    return out


def run(tier, seed, replay=None):
    res = Result("C15", tier, seed, RULE)
    rng = rng_for(seed, "C15")
    rt = probe.runtime_probe()
    reqs, plan = [], []
    for si, S in enumerate(SETS):
        others = [n for n in S["names"] if n != S["default"]]
        for c in cases_for(si, S, rng, tier):
            rid = len(reqs)
            # decoy cookies under other names holding other locales: reading the wrong cookie is visible
            decoys = ["other=%s" % others[0], "x_%s=%s" % (DEFAULT_COOKIE, others[-1])]
            if c["kind"] in ("root", "resolve"):
                name = c["cname"] or DEFAULT_COOKIE
                # when a custom name is configured the default-named cookie is a decoy too
                if c["cname"]:
                    decoys.append("%s=%s" % (DEFAULT_COOKIE, others[0]))
                op = {"op": c["kind"], "cookie_header": cookie_header(name, c["cookie"], decoys), "accept_language": c["header"],
                      "cookie_enabled": c["enabled"]}
                if c["cname"]:
                    op["cookie_name"] = c["cname"]
                ops = [op]
            else:
                ops = []
                if c["parent"] is not None:
                    ops.append({"op": "root", "cookie_header": None, "accept_language": None, "cookie_enabled": False})
                    ops.append({"op": "set", "ctx": 0, "locale": c["parent"]})
                name = c["cname"]
                decoys.append("%s=%s" % (DEFAULT_COOKIE, others[0]))
                sub = {"op": "sub_component" if c["component"] else "sub", "cookie_header": cookie_header(name or "unused_name", c["cookie"], decoys),
                       "accept_language": c["header"], "initial": c["initial"]}
                if c["parent"] is not None:
                    sub["parent"] = 0
                if name:
                    sub["cookie_name"] = name
                ops.append(sub)
            req = {"id": rid, "set": si, "ops": ops}
            if c["header"] is not None:
                req["probe_header"] = c["header"]
            reqs.append(req)
            plan.append((si, c, ops))
    p = subprocess.run([rt, "ctx"], input="\n".join(json.dumps(r) for r in reqs) + "\n", stdout=subprocess.PIPE, stderr=subprocess.PIPE, text=True, timeout=3600)
    out = {}
    for line in p.stdout.split("\n"):
        if line.startswith("{"):
            d = json.loads(line)
            out[d["id"]] = d
    if len(out) != len(reqs):
        raise Inconclusive("runtime probe answered %d of %d cases: %s" % (len(out), len(reqs), p.stderr[-400:]))
    for rid, (si, c, ops) in enumerate(plan):
        S = SETS[si]
        o = out[rid]
        res.ev()
        res.count("kind:" + c["kind"] + ("-component" if c.get("component") else ""))
        if "panic" in o:
            res.violation("C15/panic/" + c["kind"], "%s: %s" % (c, o["panic"]), {"set": si, "case": c})
            continue
        hinfo = o.get("header")
        last = o["steps"][-1]
        if c["kind"] == "resolve":
            got = last["info"]["resolved"]
        else:
            got = last["reads"][-1]["untracked"]
        cookie_valid = c["cookie"] is not None and c["cookie"].strip() in S["names"]
        sources = {}
        if c["kind"] in ("root", "resolve"):
            cookie_applies = cookie_valid and c["enabled"]
        else:
            cookie_applies = cookie_valid and c["cname"] is not None
        if cookie_applies:
            sources["cookie"] = c["cookie"].strip()
        if c["kind"] == "sub":
            if c["initial"] is not None:
                sources["initial"] = c["initial"]
            if c["parent"] is not None:
                sources["parent"] = c["parent"]
        why = None
        step = None
        for src in ("cookie", "initial", "parent"):
            if src in sources:
                step = src
                if got != sources[src]:
                    why = "%s says %s" % (src, sources[src])
                break
        if step is None:
            step = "header-or-default"
            why = header_ok(S, hinfo, got)
        distinct_sources = set(sources.values()) | ({hinfo["find_locale"]} if hinfo else set())
        if len(distinct_sources) >= 2:
            res.nontriv([si, json.dumps(c, sort_keys=True)])
        res.count("decided-by:" + step)
        if why:
            res.violation("C15/precedence-violated/%s/%s" % (c["kind"], step), "locales=%s case=%s: got %s, %s (header entries as read by ICU: %s)" % (
                S["names"], {k: v for k, v in c.items() if v is not None}, got, why, hinfo and [e for e in hinfo["entries"]]),
                {"set": si, "case": c, "ops": ops, "observed": got, "header": hinfo})
        elif len(distinct_sources) >= 2:
            res.sample({"locales": S["names"], "case": {k: v for k, v in c.items() if v is not None}, "initial_locale": got, "decided_by": step}, limit=6)
        # Set-Cookie events
        all_set = [s for st in o["steps"] for s in st["set_cookies"]]
        if c["kind"] == "root":
            name = c["cname"] or DEFAULT_COOKIE
            res.ev()
            if not c["enabled"] and all_set:
                res.violation("C15/cookie-written-although-disabled", "case %s wrote %s" % (c, all_set), {"set": si, "case": c})
            if c["enabled"] and any(not s.startswith("%s=%s" % (name, got)) for s in all_set):
                res.violation("C15/cookie-written-under-wrong-name-or-value", "case %s wrote %s, expected %s=%s" % (c, all_set, name, got), {"set": si, "case": c})
        if c["kind"] == "sub" and c.get("component") and c["parent"] is not None:
            res.ev()
            outside = last["info"].get("outside")
            if outside != 'Some("%s")->Some("%s")' % (c["parent"], c["parent"]):
                res.violation("C15/provider-changed-the-context-outside-its-children", "outside the provider: %s" % outside, {"set": si, "case": c})
    res.extra["cases"] = len(reqs)
    res.extra["exhaustive"] = True
    res.assumptions += ["only the server branch is executed (navigator.languages and <html lang> need a browser)",
                        "header entries keep their order of appearance (q-values are not used for ordering, by either side)"]
    return res.finish(min_events=1000)
