"""C16 A context always shows the last locale set; sub-contexts are isolated.

Online checker of operation histories over a tree of contexts (created natively, ssr feature) against
a sequential model: one register per context; scoped views alias their context's register; a
sub-context (function or generated <I18nSubContextProvider>) gets a fresh register initialised by the
C15 rule and never aliases its parent. After every operation every live context, scoped view and
stored accessor (t!, tu!, t_display!, tu_string!) is read and must show the register's locale."""
import json
import subprocess

from .. import gen, probe
from ..common import Result, rng_for, Inconclusive
from .c15 import SETS

RULE = ("random histories of 20..60 operations (set / set_untracked / scope / sub-context / sub-context component / accessor / subscriber memo) over "
        "context trees of depth <= 3 and 3 locale sets; an evaluation is one read of one handle or accessor after one step; "
        "non-trivial = history with >=1 sub-context and >=3 sets; distinct by hash of the operation list")


def gen_history(rng, S, nops):
    names = S["names"]
    ops = [{"op": "root", "cookie_header": None, "accept_language": None, "cookie_enabled": False}]
    regs = [S["default"]]          # register values
    handle_reg = [0]               # handle -> register
    handle_base = [True]           # can be scoped / used for accessors and as parent
    depth = [0]
    accessors = []                 # [handle, memo value | None (unconstrained) | "live"]
    expected = [([regs[h] for h in handle_reg], [])]
    for _ in range(nops):
        r = rng.random()
        if r < 0.45:
            h = rng.randrange(len(handle_reg))
            l = gen.pick(rng, names)
            tracked = rng.random() < 0.7
            if not tracked and rng.random() < 0.5:
                # the pair "untracked write, then the tracked write of the same locale": the second must still notify
                ops.append({"op": "set_untracked", "ctx": h, "locale": l})
                regs[handle_reg[h]] = l
                for a in accessors:
                    if a[1] != "live" and handle_reg[a[0]] == handle_reg[h] and a[1] != l:
                        a[1] = None
                expected.append(([regs[r_] for r_ in handle_reg], [acc_want(a, regs, handle_reg) for a in accessors]))
                aliases = [i for i, r_ in enumerate(handle_reg) if r_ == handle_reg[h]]
                h = gen.pick(rng, aliases)
                tracked = True
            ops.append({"op": "set" if tracked else "set_untracked", "ctx": h, "locale": l})
            regs[handle_reg[h]] = l
            for a in accessors:
                if a[1] != "live" and handle_reg[a[0]] == handle_reg[h]:
                    # "Set the locale and notify all subscribers" / "does not notify": after an untracked write a
                    # subscriber may legitimately show either value until the next tracked write
                    a[1] = l if tracked else (a[1] if a[1] == l else None)
        elif r < 0.6:
            bases = [i for i, b in enumerate(handle_base) if b]
            h = gen.pick(rng, bases)
            ops.append({"op": "scope", "ctx": h})
            handle_reg.append(handle_reg[h])
            handle_base.append(False)
            depth.append(depth[h])
        elif r < 0.78:
            bases = [i for i, b in enumerate(handle_base) if b and depth[i] < 3]
            parent = gen.pick(rng, bases + [None]) if rng.random() < 0.9 else None
            initial = gen.pick(rng, names) if rng.random() < 0.5 else None
            op = {"op": "sub_component" if rng.random() < 0.4 else "sub", "initial": initial, "cookie_header": None, "accept_language": None}
            if parent is not None:
                op["parent"] = parent
                if rng.random() < 0.2:
                    op["op"] = "sub_block"      # created by the init function inside a reactive block
            same_tick = rng.random() < 0.4
            if same_tick:
                op["notick"] = True
            ops.append(op)
            regs.append(initial or (regs[handle_reg[parent]] if parent is not None else S["default"]))
            handle_reg.append(len(regs) - 1)
            handle_base.append(op["op"] != "sub_block")
            depth.append((depth[parent] + 1) if parent is not None else 0)
            if same_tick:
                # the locale is set in the very tick the context was created (before its effects are flushed)
                expected.append(([regs[r_] for r_ in handle_reg], [acc_want(a, regs, handle_reg) for a in accessors]))
                h = len(handle_reg) - 1
                l = gen.pick(rng, names)
                tracked = rng.random() < 0.7
                ops.append({"op": "set" if tracked else "set_untracked", "ctx": h, "locale": l})
                regs[handle_reg[h]] = l
        else:
            if rng.random() < 0.45:
                h = rng.randrange(len(handle_reg))
                ops.append({"op": "accessor", "ctx": h, "flavour": gen.pick(rng, ["memo_locale", "memo_t", "memo_t_display", "memo_t_view", "memo_t_plural"] if handle_base[h] else ["memo_locale", "memo_t"])})
                accessors.append([h, regs[handle_reg[h]]])
            else:
                bases = [i for i, b in enumerate(handle_base) if b]
                h = gen.pick(rng, bases)
                ops.append({"op": "accessor", "ctx": h, "flavour": gen.pick(rng, ["t", "tu", "t_display", "tu_string", "t_format", "tu_format"])})
                accessors.append([h, "live"])
        expected.append(([regs[r_] for r_ in handle_reg], [acc_want(a, regs, handle_reg) for a in accessors]))
    return ops, expected


def acc_want(a, regs, handle_reg):
    return regs[handle_reg[a[0]]] if a[1] == "live" else a[1]


def run(tier, seed, replay=None):
    res = Result("C16", tier, seed, RULE)
    rng = rng_for(seed, "C16")
    rt = probe.runtime_probe()
    n = 1500 if tier == "quick" else 150000
    reqs, plans = [], []
    for i in range(n):
        si = rng.randrange(len(SETS))
        ops, expected = gen_history(rng, SETS[si], rng.randint(20, 60))
        reqs.append({"id": i, "set": si, "ops": ops})
        plans.append((si, ops, expected))
    out = {}
    chunk = 500
    from concurrent.futures import ThreadPoolExecutor

    def run_chunk(rs):
        p = subprocess.run([rt, "ctx"], input="\n".join(json.dumps(r) for r in rs) + "\n", stdout=subprocess.PIPE, stderr=subprocess.PIPE, text=True, timeout=3600)
        o = {}
        for line in p.stdout.split("\n"):
            if line.startswith("{"):
                d = json.loads(line)
                o[d["id"]] = d
        return o
    with ThreadPoolExecutor(probe.NCPU) as ex:
        for o in ex.map(run_chunk, [reqs[i:i + chunk] for i in range(0, len(reqs), chunk)]):
            out.update(o)
    if len(out) != len(reqs):
        raise Inconclusive("runtime probe answered %d of %d histories" % (len(out), len(reqs)))
    total_ops = 0
    for i, (si, ops, expected) in enumerate(plans):
        o = out[i]
        total_ops += len(ops)
        nsub = sum(1 for x in ops if x["op"].startswith("sub"))
        nset = sum(1 for x in ops if x["op"].startswith("set"))
        if nsub >= 1 and nset >= 3:
            res.nontriv(ops)
        if "panic" in o:
            res.ev()
            res.violation("C16/panic", "history %d: %s" % (i, o["panic"]), {"set": si, "ops": ops})
            continue
        bad = False
        for step, (st, (want_handles, want_acc)) in enumerate(zip(o["steps"], expected)):
            for h, rd in enumerate(st["reads"]):
                if rd.get("runs") is not None:
                    res.ev()
                    res.count("block-created-subcontext-reads")
                    if rd["runs"] != 1:
                        res.violation("C16/subcontext-recreated-by-a-change-of-its-parent", "history %d step %d (%s): the block that created handle %d has run %d times" % (
                            i, step, ops[step], h, rd["runs"]), {"set": si, "ops": ops[:step + 1], "step": step, "handle": h})
                        bad = True
            for h, (rd, want) in enumerate(zip(st["reads"], want_handles)):
                for field in ("untracked", "tracked", "string"):
                    res.ev()
                    w = want if field != "string" else "hello@" + want
                    if rd[field] != w:
                        kind = "sub-context-not-isolated" if ops[step]["op"].startswith("set") and ops[step].get("ctx") != h else "stale-or-wrong-locale"
                        res.violation("C16/%s/%s" % (kind, field), "history %d step %d (%s): handle %d reads %s=%r, model says %r" % (i, step, ops[step], h, field, rd[field], w),
                                      {"set": si, "ops": ops[:step + 1], "step": step, "handle": h, "observed": rd, "expected": want})
                        bad = True
            if ops[step]["op"] == "sub_component":
                # the provider component must not change which context the code around it sees
                res.ev()
                res.count("provider-outside-lookups")
                par = ops[step].get("parent")
                pl = want_handles[par] if par is not None else None
                want_out = ('Some("%s")->Some("%s")' % (pl, pl)) if pl is not None else "None->None"
                if (st.get("info") or {}).get("outside") != want_out:
                    res.violation("C16/provider-changed-the-context-outside-its-children", "history %d step %d: context seen around the provider %s, expected %s" % (
                        i, step, (st.get("info") or {}).get("outside"), want_out), {"set": si, "ops": ops[:step + 1], "step": step})
                    bad = True
            for a, (acc, want) in enumerate(zip(st["accessors"], want_acc)):
                if want is None:
                    res.count("subscriber-unconstrained-after-untracked-write")
                    continue
                res.ev()
                if acc["flavour"].startswith("memo"):
                    res.count("subscriber-read")
                want_text = "hello@" + want
                if acc["flavour"] in ("t_format", "tu_format"):
                    want_text = "fmt:" + o["fmt_table"][want]
                    res.count("formatting-view-read")
                if acc["text"] != want_text:
                    res.violation("C16/accessor-shows-other-locale/" + acc["flavour"], "history %d step %d (%s): accessor %d (%s on handle %d) renders %r, model says %r" % (
                        i, step, ops[step], a, acc["flavour"], acc["ctx"], acc["text"], want_text), {"set": si, "ops": ops[:step + 1], "step": step})
                    bad = True
            if len(st["reads"]) != len(want_handles) or len(st["accessors"]) != len(want_acc):
                res.ev()
                res.violation("C16/handle-count-differs", "history %d step %d" % (i, step), {"set": si, "ops": ops})
                bad = True
            if bad:
                break
        if not bad and len(res.samples) < 3:
            res.sample({"locales": SETS[si]["names"], "ops": ops[:12], "final_reads": o["steps"][-1]["reads"][:6]})
    res.extra["histories"] = n
    res.extra["ops"] = total_ops
    res.assumptions += ["native ssr build: effects that only run in a browser (RenderEffect syncing an initial-locale *signal*) are not exercised; sub-contexts are wired with constant signals only",
                        "sequential model: one register per context, scoped views alias it"]
    return res.finish(min_events=5000)
