"""C17 Server-embedded translations survive embedding into the page.

Probe crates built with `dynamic_load + ssr` render the generated <I18nContextProvider> with
children that touch a chosen subset of (locale, namespace) translation units. Oracle in three
layers: HTML (the <script> element's raw text, by the tokenizer's rule, is the whole assignment and
opens no comment state), JavaScript (the literal parses with full JS string-escape syntax), value
(decoded list == exactly the touched units, each with the unit's strings in order, compared with
the tables the real parser returned)."""
import json

from .. import e2e, gen, jslit, projects, pvdump, workload
from ..common import Result, rng_for
from ..gen import GenCfg

RULE = ("projects with 1-3 namespaces x 2-4 locales and strings from a hostile alphabet (quotes, backslashes, newlines, U+2028/9, "
        "</script>, <!--, non-ASCII); an evaluation is one rendered page (touched-unit subset) checked on three layers; "
        "non-trivial = >=1 touched unit holds a character that needs escaping; distinct by (project, touched subset)")

HOSTILE = ["\"", "\\", "\n", "\r", " ", " ", "';alert(1);//", "\\\"", "\\n", "\t", "é", "日本語", "\U0001F600", "&amp;", "&", "]]", "];", "\"]}];", "x", " ", "null", "\\u0041", "\u0000"]
# delimiters of the template grammar are excluded from text by DESIGN section 1, so `</script>` and `<!--`
# are carried by *whole-value* literals that contain no tag that could parse as a component
SCRIPTY = ["</script>", "</SCRIPT >", "<!--", "-->", "</script", "<script>", "<!-- </script> -->", "a</script>b<!--c"]


def sweep_project():
    """Deterministic coverage of string contents: every C0/C1 control and other special character alone, between letters,
    and all together (same table as C11), in two locales and two units."""
    from .c11 import EVERY_SPECIAL
    specials = [c for c in EVERY_SPECIAL if c not in "<>"]
    data = {}
    for ns in ("common", "user-home"):
        for l in ("en", "fr"):
            tree = [["k0", {"k": "raw", "v": "".join(specials if l == "en" else reversed(specials))}]]
            for i, ch in enumerate(specials):
                if (i % 2 == 0) == (ns == "common"):
                    tree.append(["k%d" % (i + 1), {"k": "raw", "v": ("a" + ch + "b") if l == "en" else ch}])
            data[(ns, l)] = tree
    data[("vars", "en")] = [["k0", {"k": "raw", "v": "{{ x }}"}]]
    data[("vars", "fr")] = [["k0", {"k": "raw", "v": "{{ x }}"}]]
    return {"cfg": {"default": "en", "locales": ["en", "fr"], "namespaces": ["common", "user-home", "vars"], "inherits": {}, "locales_dir": None}, "data": data}


def build_project(rng):
    nloc = rng.randint(2, 4)
    locales = rng.sample(["en", "fr", "de", "ja", "pt-BR", "ar"], nloc)
    nss = rng.sample(["common", "home", "admin", "user-profile", "a-b-c"], rng.randint(1, 3)) if rng.random() < 0.7 else None
    data = {}
    for ns in (nss or [None]):
        keys = ["k%d" % i for i in range(rng.randint(2, 5))]
        for l in locales:
            tree = []
            for k in keys:
                r = rng.random()
                if r < 0.35:
                    v = gen.pick(rng, SCRIPTY)
                    tree.append([k, {"k": "raw", "v": v}])
                elif r < 0.8:
                    v = "".join(gen.pick(rng, HOSTILE) for _ in range(rng.randint(1, 4))) + "@" + l
                    tree.append([k, {"k": "raw", "v": v}])
                else:
                    tree.append([k, {"k": "raw", "v": gen.pick(rng, HOSTILE) + " {{ x }} " + gen.pick(rng, HOSTILE)}])
            data[(ns, l)] = tree
    if nss is not None and rng.random() < 0.6:
        # a unit that holds no string at all in some (or every) locale: only interpolated values
        nss.append("vars")
        for i, l in enumerate(locales):
            if i == 0 and rng.random() < 0.5:
                data[("vars", l)] = [["k0", {"k": "raw", "v": "{{ x }}"}], ["k1", {"k": "raw", "v": "text@" + l}]]
            else:
                data[("vars", l)] = [["k0", {"k": "raw", "v": "{{ x }}"}], ["k1", {"k": "raw", "v": "{{ x }}{{ x }}"}]]
    return {"cfg": {"default": locales[0], "locales": list(locales), "namespaces": nss, "inherits": {}, "locales_dir": None}, "data": data}


def run(tier, seed, replay=None):
    res = Result("C17", tier, seed, RULE)
    rng = rng_for(seed, "C17")
    ncrates = 3 if tier == "quick" else 40
    crates, projs = [], []
    for ci in range(ncrates):
        p = build_project(rng) if ci else sweep_project()
        projs.append(p)
    # string tables from the real parser (what each unit holds, in order)
    dirs, _ = workload.materialise(projs, "c17", seed=seed)
    outs = workload.run_projects(dirs, "json")
    feats = ["cookie", "icu_compiled_data", "interpolate_display", "plurals", "format_datetime", "format_nums", "format_list", "format_currency", "ssr", "dynamic_load"]
    for ci, (p, o) in enumerate(zip(projs, outs)):
        if o["outcome"] != "ok":
            res.inconclusive.append("project %d not loaded by the parser: %s" % (ci, o.get("err")))
            continue
        tables = {}
        for ns, locs in pvdump.top_locales(o["bk"]):
            for l in locs:
                tables[(ns, l["top"])] = l["strings"]
        c = e2e.ProbeCrate("c17_%d" % ci, p, features=feats)
        c.tables = tables
        units = sorted(tables, key=lambda u: (str(u[0]), u[1]))
        subsets = [[]] + [[u] for u in units[:3]] + [units] + [rng.sample(units, rng.randint(1, len(units))) for _ in range(10 if tier == "quick" else 20)]
        for sub in subsets:
            touches = []
            for (ns, l) in sub:
                tree = p["data"][(ns, l)]
                key = tree[rng.randrange(len(tree))][0]
                kp = e2e.key_path_tokens(ns, [key])
                needs_x = any("{{ x }}" in dict((k, n["v"]) for k, n in p["data"][(ns, l2)])[key] for l2 in p["cfg"]["locales"])
                arg = ', x = "X"' if needs_x else ""
                how = rng.random()
                if how < 0.5:
                    touches.append("let _ = html(td!(Locale::%s, %s%s));" % (e2e.ident(l), kp, arg))
                else:
                    touches.append("let _ = futures::executor::block_on(td_string!(Locale::%s, %s%s));" % (e2e.ident(l), kp, arg))
            body = '''    init_exec();
    let owner = Owner::new();
    let page = owner.with(|| {
        let co: leptos_i18n::context::CookieOptions<Locale> = leptos_i18n::context::CookieOptions::default().ssr_cookies_header_getter(|| None).ssr_set_cookie(|_: &_| {});
        let lo = leptos_i18n::context::UseLocalesOptions::default().ssr_lang_header_getter(|| None);
        // half of the requests use their strings while the children are being built (attribute strings, td_string! in the body of
        // the children), the other half only when the view is rendered
        let v = view! { <I18nContextProvider enable_cookie=false cookie_options=co ssr_lang_header_getter=lo>{%s { %s "child" }}</I18nContextProvider> };
        v.to_html()
    });
    emit(%d, "page", &page);''' % ("" if len(c.obs) % 2 else "move ||", " ".join(touches), c.next_id)
            c.add(body, {"touched": sorted(set(sub), key=lambda u: (str(u[0]), u[1]))})
        crates.append(c)
    root = e2e.write_workspace("c17", crates, seed=seed, surface_kw={"plain": True})
    status, secs, _ = e2e.build_workspace(root, crates)
    res.extra["e2e"] = {"build_s": round(secs, 1), "crates": len(crates)}
    for c in crates:
        st = status[c.name]
        if not st["ok"]:
            res.ev()
            res.violation("C17/dynamic-load-ssr-probe-does-not-compile", "crate %s: %s" % (c.name, "\n".join(st["messages"])[:3000]), {"project": gen.project_to_jsonable(c.project)})
            continue
        obs, done, rc, err = e2e.run_crate(st["exe"])
        if not done:
            res.inconclusive.append("probe crate %s did not finish: %s" % (c.name, err[-300:]))
        for oid, exp in c.expect.items():
            res.ev()
            o = obs.get(oid, {})
            if "*" in o or "page" not in o:
                res.violation("C17/render-panicked", "crate %s: %s" % (c.name, o.get("*")), {"project": gen.project_to_jsonable(c.project), "touched": exp["touched"]})
                continue
            page = o["page"]["v"]
            want = {(l, ns): c.tables[(ns, l)] for ns, l in exp["touched"]}
            needs_escape = any(any(ch in s for ch in '"\\\n\r<  ') for t in want.values() for s in t)
            if needs_escape:
                res.nontriv([c.name, exp["touched"]])
            res.count("pages")
            # HTML layer
            try:
                raws = [r for r in jslit.script_raw_texts(page) if "__LEPTOS_I18N_TRANSLATIONS" in r or r.strip()]
            except jslit.JsError as e:
                res.violation("C17/html-layer/script-element-malformed", "%s\n  page: %r" % (e, page[:600]), {"project": gen.project_to_jsonable(c.project), "touched": exp["touched"], "page": page})
                continue
            emb = [r for r in raws if "__LEPTOS_I18N_TRANSLATIONS" in r]
            if len(emb) != 1:
                res.violation("C17/html-layer/embed-script-count", "%d scripts carry the translations" % len(emb), {"page": page, "project": gen.project_to_jsonable(c.project)})
                continue
            raw = emb[0]
            if "<!--" in raw:
                res.violation("C17/html-layer/comment-opener-inside-script", "raw text contains <!-- : %r" % raw[:300], {"page": page, "project": gen.project_to_jsonable(c.project), "touched": exp["touched"]})
                continue
            # JS layer
            try:
                val = jslit.parse_assignment(raw)
            except (jslit.JsError, ValueError, IndexError) as e:
                res.violation("C17/js-layer/not-a-valid-literal", "%s\n  raw script text: %r" % (e, raw[:500]), {"page": page, "project": gen.project_to_jsonable(c.project), "touched": exp["touched"]})
                continue
            # value layer
            try:
                got = {(u["locale"], u["id"]): u["values"] for u in val}
                dup = len(got) != len(val)
            except (TypeError, KeyError):
                res.violation("C17/value-layer/unexpected-shape", repr(val)[:300], {"page": page})
                continue
            if dup or got != want:
                res.violation("C17/value-layer/units-or-strings-differ", "touched %s\n  expected %r\n  decoded  %r" % (exp["touched"], want, got),
                              {"page": page, "project": gen.project_to_jsonable(c.project), "touched": exp["touched"]})
            else:
                res.sample({"touched_units": exp["touched"], "script_text": raw[:200]}, limit=5)
    res.assumptions += ["HTML raw-text rule: the script ends at the first `</script` followed by tab/LF/FF/CR/space/`/`/`>`", "only the server side is executed (the hydrate side re-emits the script in the browser)"]
    return res.finish(min_events=10)
