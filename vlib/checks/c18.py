"""C18 Formatters apply the declared options for the locale being rendered.

(1) parser boundary: the Formatter value parsed from every `{{ v, name(args) }}` spelling vs the
documented names / option names / defaults (insensitive to whitespace; unknown option or value ->
default; unknown formatter -> error). (2) end to end: td_string!/td!/td_format_string! outputs vs
formatting the same value directly with ICU4X constructed in the probe with the model's options for
that locale. (3) schedules: many short processes each racing 16 threads on the first uses of the
process-global formatter cache; every result must equal the direct ICU4X result."""
import itertools
import json
import os
import subprocess

from .. import e2e, gen, probe, workload
from ..common import Result, rng_for, Inconclusive, NCPU

RULE = ("all formatter names x option combinations (incl. omitted / unknown values / unknown option names) x whitespace variants x "
        "6 locales x values; an evaluation is one parsed Formatter, one rendered text vs direct ICU4X, or one concurrent call; "
        "non-trivial = options differ from the defaults; distinct by (formatter, options, locale, value)")

LOCALES = ["en", "fr", "de", "ar", "ja", "hi", "es"]

GROUPING = {None: "Auto", "auto": "Auto", "never": "Never", "always": "Always", "min2": "Min2", "bogus": "Auto"}
DLEN = {None: "Medium", "full": "Full", "long": "Long", "medium": "Medium", "short": "Short", "bogus": "Medium"}
TLEN = {None: "Short", "full": "Full", "long": "Long", "medium": "Medium", "short": "Short", "bogus": "Short"}
LTYPE = {None: "Unit", "and": "And", "or": "Or", "unit": "Unit", "bogus": "Unit"}
LSTYLE = {None: "Wide", "wide": "Wide", "short": "Short", "narrow": "Narrow", "bogus": "Wide"}
CWIDTH = {None: "Short", "short": "Short", "narrow": "Narrow", "bogus": "Short"}
CCODE = {None: "USD", "EUR": "EUR", "JPY": "JPY", "CAD": "CAD", "usd": "usd", "ABCD": "USD", "éé": "USD"}


def configs():
    """(name, args list, expected debug, canonical options)"""
    out = []
    for g in GROUPING:
        out.append(("number", [("grouping_strategy", g)] if g else [], "Number(%s)" % GROUPING[g], ("number", GROUPING[g])))
    out.append(("number", [("unknown_option", "always")], "Number(Auto)", ("number", "Auto")))
    out.append(("number", [("grouping_strategy", "bogus"), ("grouping_strategy", "never")], "Number(Never)", ("number", "Never")))
    for w, c in itertools.product(CWIDTH, CCODE):
        args = ([("width", w)] if w else []) + ([("currency_code", c)] if c else [])
        out.append(("currency", args, 'Currency(%s, CurrencyCode("%s"))' % (CWIDTH[w], CCODE[c]), ("currency", CWIDTH[w], CCODE[c])))
    for d in DLEN:
        out.append(("date", [("date_length", d)] if d else [], "Date(%s)" % DLEN[d], ("date", DLEN[d])))
    for t in TLEN:
        out.append(("time", [("time_length", t)] if t else [], "Time(%s)" % TLEN[t], ("time", TLEN[t])))
    for d, t in itertools.product([None, "full", "short", "long"], [None, "medium", "short", "long"]):
        args = ([("time_length", t)] if t else []) + ([("date_length", d)] if d else [])
        out.append(("datetime", args, "DateTime(%s, %s)" % (DLEN[d], TLEN[t]), ("datetime", DLEN[d], TLEN[t])))
    for ty, st in itertools.product(LTYPE, LSTYLE):
        args = ([("list_type", ty)] if ty else []) + ([("list_style", st)] if st else [])
        out.append(("list", args, "List(%s, %s)" % (LTYPE[ty], LSTYLE[st]), ("list", LTYPE[ty], LSTYLE[st])))
    return out


def fmt_seg(name, args, with_parens):
    return {"s": "var", "name": "v", "fmt": {"name": name, "args": args if (args or with_parens) else None}}


def parser_stage(res, tier, seed):
    rng = rng_for(seed, "C18", "P")
    cfgs = configs()
    reps = 3 if tier == "quick" else 12
    projs, metas = [], []
    for rep in range(reps):
        tree, meta = [], []
        for i, (name, args, dbg, canon) in enumerate(cfgs):
            a = list(args)
            rng.shuffle(a)
            tree.append(["f%d" % i, {"k": "tmpl", "segs": [{"s": "text", "v": "x "}, fmt_seg(name, a, rng.random() < 0.5)]}])
            meta.append(dbg)
        projs.append({"cfg": {"default": "en", "locales": ["en"], "namespaces": None, "inherits": {}, "locales_dir": None}, "data": {(None, "en"): tree}})
        metas.append(meta)
    # unknown formatter names must be errors
    bad = []
    for name in ("numbers", "Number", "datetimes", "percent", "plural", "", "date time"):
        bad.append({"cfg": {"default": "en", "locales": ["en"], "namespaces": None, "inherits": {}, "locales_dir": None},
                    "data": {(None, "en"): [["k", {"k": "tmpl", "segs": [fmt_seg(name, [], False)]}]]}})
    dirs, _ = workload.materialise(projs + bad, "c18", seed=seed)
    outs = workload.run_projects(dirs, "json")
    for p, meta, o in zip(projs, metas, outs):
        if o["outcome"] != "ok":
            res.ev()
            res.violation("C18/documented-formatters-rejected", str(o.get("err") or o.get("msg")), {"project": gen.project_to_jsonable(p)})
            continue
        vals = dict((k, v) for k, v in o["bk"]["locales"][0]["keys"])
        for i, dbg in enumerate(meta):
            res.ev()
            pv = vals["f%d" % i]
            got = [x for x in pv.get("items", [pv]) if x["t"] == "var"][0]["fmt"]
            res.count("parsed:" + dbg.split("(")[0])
            if dbg not in ("Number(Auto)", "Date(Medium)", "Time(Short)", "DateTime(Medium, Short)", "List(Unit, Wide)"):
                res.nontriv(["parsed", dbg])
            if got != dbg:
                res.violation("C18/parsed-formatter-differs/" + dbg.split("(")[0], "expected %s, parser produced %s" % (dbg, got),
                              {"project": gen.project_to_jsonable(p), "key": "f%d" % i})
    for p, o in zip(bad, outs[len(projs):]):
        res.ev()
        res.count("unknown-formatter-name")
        if o["outcome"] != "err" or "formatter" not in o.get("err", "").lower():
            res.violation("C18/unknown-formatter-accepted", "%s -> %s %s" % (p["data"][(None, "en")][0][1]["segs"][0]["fmt"]["name"], o["outcome"], o.get("err")),
                          {"project": gen.project_to_jsonable(p)})


EXPECT_RS = r'''
use leptos_i18n::reexports::fixed_decimal::{FixedDecimal, FloatPrecision};
use leptos_i18n::reexports::icu::calendar::{Date, DateTime, Time};
use leptos_i18n::reexports::icu::datetime::{options::length, DateFormatter, DateTimeFormatter, TimeFormatter};
use leptos_i18n::reexports::icu::decimal::{options::{FixedDecimalFormatterOptions, GroupingStrategy}, FixedDecimalFormatter};
use leptos_i18n::reexports::icu::list::{ListFormatter, ListLength};
use leptos_i18n::reexports::icu::locid::Locale as IcuLocale;
use leptos_i18n::reexports::icu::currency::{formatter::{CurrencyCode, CurrencyFormatter}, options::{CurrencyFormatterOptions, Width}};

fn il(s: &str) -> IcuLocale { s.parse().unwrap() }
fn exp_number(loc: &str, v: FixedDecimal, g: GroupingStrategy) -> String {
    let mut o = FixedDecimalFormatterOptions::default();
    o.grouping_strategy = g;
    FixedDecimalFormatter::try_new(&(&il(loc)).into(), o).unwrap().format_to_string(&v)
}
fn exp_currency(loc: &str, v: FixedDecimal, w: Width, code: &str) -> String {
    let f = CurrencyFormatter::try_new(&(&il(loc)).into(), CurrencyFormatterOptions::from(w)).unwrap();
    let code = CurrencyCode(code.parse().unwrap());
    let mut s = String::new();
    writeable::Writeable::write_to(&f.format_fixed_decimal(&v, code), &mut s).unwrap();
    s
}
fn exp_date(loc: &str, y: i32, m: u8, d: u8, l: length::Date) -> String {
    DateFormatter::try_new_with_length(&(&il(loc)).into(), l).unwrap().format_to_string(&Date::try_new_iso_date(y, m, d).unwrap().to_any()).unwrap()
}
fn exp_time(loc: &str, h: u8, mi: u8, s: u8, l: length::Time) -> String {
    match TimeFormatter::try_new_with_length(&(&il(loc)).into(), l) {
        Ok(f) => f.format_to_string(&Time::try_new(h, mi, s, 0).unwrap()),
        Err(e) => format!("<icu4x-error: {e:?}>"),
    }
}
fn exp_datetime(loc: &str, y: i32, m: u8, d: u8, h: u8, mi: u8, s: u8, dl: length::Date, tl: length::Time) -> String {
    let o = length::Bag::from_date_time_style(dl, tl);
    let dt = DateTime::new(Date::try_new_iso_date(y, m, d).unwrap().to_any(), Time::try_new(h, mi, s, 0).unwrap());
    match DateTimeFormatter::try_new(&(&il(loc)).into(), o.into()) {
        Ok(f) => f.format_to_string(&dt).unwrap(),
        Err(e) => format!("<icu4x-error: {e:?}>"),
    }
}
fn exp_list(loc: &str, items: &[&str], ty: &str, l: ListLength) -> String {
    let dl = (&il(loc)).into();
    let f = match ty { "And" => ListFormatter::try_new_and_with_length(&dl, l), "Or" => ListFormatter::try_new_or_with_length(&dl, l), _ => ListFormatter::try_new_unit_with_length(&dl, l) }.unwrap();
    f.format_to_string(items.iter())
}
fn fd_i(v: i64) -> FixedDecimal { FixedDecimal::from(v) }
fn fd_f(v: f64) -> FixedDecimal { FixedDecimal::try_from_f64(v, FloatPrecision::Floating).unwrap() }
'''

NUM_VALUES = [("1000i64", "fd_i(1000)"), ("10000i64", "fd_i(10000)"), ("1234567i64", "fd_i(1234567)"), ("-42i64", "fd_i(-42)"), ("1234.5f64", "fd_f(1234.5)")]
DATE_VALUES = [(1970, 1, 2), (2024, 2, 29)]
TIME_VALUES = [(14, 34, 28), (0, 5, 9)]
LIST_VALUES = [["A", "B", "C"], ["A", "B"], ["x"]]


def macro_family(oid, vi, lv, sval, vval, name, fargs, lv_other=None):
    """The t*_format! family on one value: locale-taking string / display / view, and context-taking tracked and untracked."""
    F = "leptos_i18n::formatting::"
    return [
        '    emit(%d, "m%d", &%std_format_string!(%s, %s, formatter: %s%s));' % (oid, vi, F, lv, sval, name, fargs),
        '    emit(%d, "md%d", &%std_format_display!(%s, %s, formatter: %s%s).to_string());' % (oid, vi, F, lv, sval, name, fargs),
        '    emit(%d, "mv%d", &html(%std_format!(%s, move || %s, formatter: %s%s)));' % (oid, vi, F, lv, vval, name, fargs),
        '    with_ctx(%s, |i18n| { emit(%d, "mc%d", &%st_format_string!(i18n, %s, formatter: %s%s)); '
        'emit(%d, "mu%d", &%stu_format_display!(i18n, %s, formatter: %s%s).to_string()); '
        'emit(%d, "mw%d", &html(%st_format!(i18n, move || %s, formatter: %s%s))); '
        'emit(%d, "mt%d", &%stu_format_string!(i18n, %s, formatter: %s%s)); '
        'emit(%d, "mp%d", &%st_format_display!(i18n, %s, formatter: %s%s).to_string()); });' % (
            lv, oid, vi, F, sval, name, fargs, oid, vi, F, sval, name, fargs, oid, vi, F, vval, name, fargs, oid, vi, F, sval, name, fargs, oid, vi, F, sval, name, fargs),
    ] + ([
        # history: the view is built while another locale is current, the locale is set, then it is rendered
        '    with_ctx(%s, |i18n| { let v = %st_format!(i18n, move || %s, formatter: %s%s); let u = %stu_format!(i18n, move || %s, formatter: %s%s); i18n.set_locale(%s); '
        'emit(%d, "mx%d", &html(v)); emit(%d, "my%d", &html(u)); });' % (lv_other, F, vval, name, fargs, F, vval, name, fargs, lv, oid, vi, oid, vi),
    ] if lv_other and vi == 0 else [])


def ref_value(name):
    if name in ("number", "currency"):
        return NUM_VALUES[0][0]
    if name == "date":
        return "Date::try_new_iso_date(%d, %d, %d).unwrap().to_any()" % DATE_VALUES[0]
    if name == "time":
        return "Time::try_new(%d, %d, %d, 0).unwrap()" % TIME_VALUES[0]
    if name == "datetime":
        return "DateTime::new(Date::try_new_iso_date(%d, %d, %d).unwrap().to_any(), Time::try_new(%d, %d, %d, 0).unwrap())" % (DATE_VALUES[0] + TIME_VALUES[0])
    return "[%s]" % ", ".join(e2e.rust_str(x) for x in LIST_VALUES[0])


def ref_lines(oid, lv, i, name):
    """value #0 through `g<i>` = "ref $t(f<i>)" and `h<i>` = $t(w<i>, {"who": "ref"}) with w<i> = "{{ who }} owes {{ v, fmt }}"."""
    val = ref_value(name)
    return [
        '    emit(%d, "rs0", &td_string!(%s, g%d, v = %s).to_string().replacen("ref ", "", 1));' % (oid, lv, i, val),
        '    emit(%d, "rv0", &html(td!(%s, g%d, v = move || %s)).replacen("ref ", "", 1));' % (oid, lv, i, val),
        '    emit(%d, "rh0", &td_string!(%s, h%d, v = %s).to_string().replacen("ref owes ", "", 1));' % (oid, lv, i, val),
    ]


FLAVOUR_NAMES = {"s": "td_string", "v": "td", "m": "td_format_string", "md": "td_format_display", "mv": "td_format", "mc": "t_format_string",
                 "mu": "tu_format_display", "mw": "t_format", "mt": "tu_format_string", "mp": "t_format_display", "mx": "t_format-built-before-set_locale", "my": "tu_format-built-before-set_locale", "rs": "td_string-through-foreign-key", "rv": "td-through-foreign-key",
                 "rh": "td_string-through-foreign-key-with-args"}


PROVIDER_RS = r'''
// the application's own ICU data provider: leptos_i18n is built WITHOUT `icu_compiled_data` in this crate and builds every
// formatter through this trait (the constructors below are the ones its own compiled-data provider uses)
pub struct AppProvider;
impl leptos_i18n::custom_provider::IcuDataProvider for AppProvider {
    fn try_new_num_formatter(&self, locale: &leptos_i18n::reexports::icu::provider::DataLocale, options: FixedDecimalFormatterOptions)
        -> Result<FixedDecimalFormatter, leptos_i18n::reexports::icu::decimal::DecimalError> { FixedDecimalFormatter::try_new(locale, options) }
    fn try_new_date_formatter(&self, locale: &leptos_i18n::reexports::icu::provider::DataLocale, l: length::Date)
        -> Result<DateFormatter, leptos_i18n::reexports::icu::datetime::DateTimeError> { DateFormatter::try_new_with_length(locale, l) }
    fn try_new_time_formatter(&self, locale: &leptos_i18n::reexports::icu::provider::DataLocale, l: length::Time)
        -> Result<TimeFormatter, leptos_i18n::reexports::icu::datetime::DateTimeError> { TimeFormatter::try_new_with_length(locale, l) }
    fn try_new_datetime_formatter(&self, locale: &leptos_i18n::reexports::icu::provider::DataLocale, o: leptos_i18n::reexports::icu::datetime::options::DateTimeFormatterOptions)
        -> Result<DateTimeFormatter, leptos_i18n::reexports::icu::datetime::DateTimeError> { DateTimeFormatter::try_new(locale, o) }
    fn try_new_and_list_formatter(&self, locale: &leptos_i18n::reexports::icu::provider::DataLocale, s: ListLength)
        -> Result<ListFormatter, leptos_i18n::reexports::icu::list::ListError> { ListFormatter::try_new_and_with_length(locale, s) }
    fn try_new_or_list_formatter(&self, locale: &leptos_i18n::reexports::icu::provider::DataLocale, s: ListLength)
        -> Result<ListFormatter, leptos_i18n::reexports::icu::list::ListError> { ListFormatter::try_new_or_with_length(locale, s) }
    fn try_new_unit_list_formatter(&self, locale: &leptos_i18n::reexports::icu::provider::DataLocale, s: ListLength)
        -> Result<ListFormatter, leptos_i18n::reexports::icu::list::ListError> { ListFormatter::try_new_unit_with_length(locale, s) }
    fn try_new_plural_rules(&self, locale: &leptos_i18n::reexports::icu::provider::DataLocale, t: leptos_i18n::reexports::icu::plurals::PluralRuleType)
        -> Result<leptos_i18n::reexports::icu::plurals::PluralRules, leptos_i18n::reexports::icu::plurals::PluralsError> { leptos_i18n::reexports::icu::plurals::PluralRules::try_new(locale, t) }
    fn try_new_currency_formatter(&self, locale: &leptos_i18n::reexports::icu::provider::DataLocale, o: CurrencyFormatterOptions)
        -> Result<CurrencyFormatter, leptos_i18n::reexports::icu::provider::DataError> { CurrencyFormatter::try_new(locale, o) }
}
'''
PROVIDER_DEPS = '''icu_decimal = { version = "1.5", features = ["compiled_data"] }
icu_datetime = { version = "1.5", features = ["compiled_data"] }
icu_list = { version = "1.5", features = ["compiled_data"] }
icu_plurals = { version = "1.5", features = ["compiled_data"] }
icu_experimental = { version = "0.1", features = ["compiled_data"] }
'''


def e2e_stage(res, tier, seed, custom=False):
    """custom=True: the same observations in a crate where leptos_i18n has no compiled data and formats through the
    application's own data provider (a reduced set of configurations)."""
    rng = rng_for(seed, "C18", "E", custom)
    cfgs = configs()
    if custom:
        # every option value of every formatter once
        seen, keep = set(), []
        for c_ in cfgs:
            vals = frozenset([c_[0]] + ["%s=%s" % (i_, v_) for i_, v_ in enumerate(c_[3][1:])])
            if not vals <= seen and all(v.isascii() and v.isidentifier() for _, v in c_[1]):
                seen |= vals
                keep.append(c_)
        cfgs = keep
    elif tier == "quick":
        # every option value at least once, a sample of the products
        keep = [c for c in cfgs if c[0] in ("number", "date", "time", "currency")] + \
            rng.sample([c for c in cfgs if c[0] == "datetime"], 6) + rng.sample([c for c in cfgs if c[0] == "list"], 10)
        cfgs = keep
    locs = LOCALES if tier == "thorough" else ["en", "fr", "ar", "ja", "es"]
    if custom:
        locs = ["en", "fr", "ja"] if tier == "thorough" else ["fr", "en"]
    tree = []
    for i, (name, args, dbg, canon) in enumerate(cfgs):
        tree.append(["f%d" % i, {"k": "tmpl", "segs": [fmt_seg(name, list(args), rng.random() < 0.5)]}])
        # the same formatted variable reached through a foreign key, plain and with an argument for another variable
        tree.append(["g%d" % i, {"k": "tmpl", "segs": [{"s": "text", "v": "ref "}, {"s": "fk", "ns": None, "path": ["f%d" % i], "args": None}]}])
        tree.append(["w%d" % i, {"k": "tmpl", "segs": [{"s": "var", "name": "who", "fmt": None}, {"s": "text", "v": " owes "}, fmt_seg(name, list(args), True)]}])
        tree.append(["h%d" % i, {"k": "tmpl", "segs": [{"s": "fk", "ns": None, "path": ["w%d" % i], "args": [["who", {"a": "str", "segs": [{"s": "text", "v": "ref"}]}]]}]}])
    if custom:
        # plural rules are built through the provider too
        for rule in ("cardinal", "ordinal"):
            tree.append(["pl_" + rule[:3], {"k": "plural", "rule": rule, "forms": {f: [{"s": "text", "v": f}] for f in gen.FORMS}}])
    proj = {"cfg": {"default": locs[0], "locales": list(locs), "namespaces": None, "inherits": {}, "locales_dir": None},
            "data": {(None, l): tree for l in locs}}
    if len(locs) >= 2:
        # the last locale translates none of the formatted keys: it renders the default locale's text, formatted for itself
        proj["data"][(None, locs[-1])] = [[k, ({"k": "null"} if k[0] == "f" and k[1:].isdigit() else n)] for k, n in tree]
    c = e2e.ProbeCrate("c18_custom" if custom else "c18_0", proj,
                       features=["cookie", "interpolate_display", "plurals", "format_datetime", "format_nums", "format_list", "format_currency", "ssr"] if custom else None)
    c.extra_items = EXPECT_RS
    if custom:
        c.extra_items += PROVIDER_RS
        c.extra_deps = PROVIDER_DEPS
        c.main_prelude = "    leptos_i18n::custom_provider::set_icu_data_provider(AppProvider);\n"
    tagp = "custom-provider/" if custom else ""
    for i, (name, args, dbg, canon) in enumerate(cfgs):
        for loc in locs:
            lv = "Locale::" + e2e.ident(loc)
            lv_other = "Locale::" + e2e.ident(locs[(locs.index(loc) + 1) % len(locs)])
            ls = e2e.rust_str(loc)
            key = "f%d" % i
            fargs = ("(" + "; ".join("%s: %s" % (k, v) for k, v in args if v.isascii() and v.isidentifier()) + ")") if args else ""
            macro_ok = all(v.isascii() and v.isidentifier() for _, v in args)
            oid = c.next_id
            lines = []
            if name in ("number", "currency"):
                for vi, (lit, fd) in enumerate(NUM_VALUES):
                    if name == "number":
                        exp = "exp_number(%s, %s, GroupingStrategy::%s)" % (ls, fd, canon[1])
                    else:
                        exp = "exp_currency(%s, %s, Width::%s, %s)" % (ls, fd, canon[1], e2e.rust_str(canon[2]))
                    lines.append('    emit(%d, "exp%d", &%s); emit(%d, "s%d", &td_string!(%s, %s, v = %s).to_string()); emit(%d, "v%d", &html(td!(%s, %s, v = move || %s)));' % (
                        oid, vi, exp, oid, vi, lv, key, lit, oid, vi, lv, key, lit))
                    if macro_ok:
                        lines += macro_family(oid, vi, lv, lit, lit, name, fargs, lv_other)
            elif name == "date":
                for vi, (y, m, d) in enumerate(DATE_VALUES):
                    val = "Date::try_new_iso_date(%d, %d, %d).unwrap().to_any()" % (y, m, d)
                    lines.append('    emit(%d, "exp%d", &exp_date(%s, %d, %d, %d, length::Date::%s)); emit(%d, "s%d", &td_string!(%s, %s, v = %s).to_string()); emit(%d, "v%d", &html(td!(%s, %s, v = move || %s)));' % (
                        oid, vi, ls, y, m, d, canon[1], oid, vi, lv, key, val, oid, vi, lv, key, val))
                    if macro_ok:
                        lines += macro_family(oid, vi, lv, "&" + val, val, name, fargs, lv_other)
            elif name == "time":
                for vi, (h, mi, s) in enumerate(TIME_VALUES):
                    val = "Time::try_new(%d, %d, %d, 0).unwrap()" % (h, mi, s)
                    lines.append('    emit(%d, "exp%d", &exp_time(%s, %d, %d, %d, length::Time::%s)); emit(%d, "s%d", &td_string!(%s, %s, v = %s).to_string()); emit(%d, "v%d", &html(td!(%s, %s, v = move || %s)));' % (
                        oid, vi, ls, h, mi, s, canon[1], oid, vi, lv, key, val, oid, vi, lv, key, val))
                    if macro_ok:
                        lines += macro_family(oid, vi, lv, "&" + val, val, name, fargs, lv_other)
            elif name == "datetime":
                for vi, ((y, m, d), (h, mi, s)) in enumerate(zip(DATE_VALUES, TIME_VALUES)):
                    val = "DateTime::new(Date::try_new_iso_date(%d, %d, %d).unwrap().to_any(), Time::try_new(%d, %d, %d, 0).unwrap())" % (y, m, d, h, mi, s)
                    lines.append('    emit(%d, "exp%d", &exp_datetime(%s, %d, %d, %d, %d, %d, %d, length::Date::%s, length::Time::%s)); emit(%d, "s%d", &td_string!(%s, %s, v = %s).to_string()); emit(%d, "v%d", &html(td!(%s, %s, v = move || %s)));' % (
                        oid, vi, ls, y, m, d, h, mi, s, canon[1], canon[2], oid, vi, lv, key, val, oid, vi, lv, key, val))
                    if macro_ok:
                        lines += macro_family(oid, vi, lv, "&" + val, val, name, fargs, lv_other)
            else:
                for vi, items in enumerate(LIST_VALUES):
                    arr = "[%s]" % ", ".join(e2e.rust_str(x) for x in items)
                    lines.append('    emit(%d, "exp%d", &exp_list(%s, &%s, %s, ListLength::%s)); emit(%d, "s%d", &td_string!(%s, %s, v = %s).to_string()); emit(%d, "v%d", &html(td!(%s, %s, v = move || %s)));' % (
                        oid, vi, ls, arr, e2e.rust_str(canon[1]), canon[2], oid, vi, lv, key, arr, oid, vi, lv, key, arr))
                    if macro_ok:
                        lines += macro_family(oid, vi, lv, arr, arr, name, fargs, lv_other)
            lines += ref_lines(oid, lv, i, name)
            c.add("\n".join(lines), {"name": name, "args": args, "canon": canon, "locale": loc})
    if custom:
        for loc in locs:
            for rule, rt in (("cardinal", "Cardinal"), ("ordinal", "Ordinal")):
                oid = c.next_id
                body = ('    let rules = leptos_i18n::reexports::icu::plurals::PluralRules::try_new(&(&il(%s)).into(), leptos_i18n::reexports::icu::plurals::PluralRuleType::%s).unwrap();\n'
                        '    for n in (0u64..40).chain([100, 101, 111, 1000000]) {\n'
                        '        let want = format!("{:?}", rules.category_for(n)).to_lowercase();\n'
                        '        emit(%d, &format!("exp{}", n), &want); emit(%d, &format!("s{}", n), &td_string!(Locale::%s, pl_%s, count = n).to_string());\n'
                        '        emit(%d, &format!("v{}", n), &html(td!(Locale::%s, pl_%s, count = move || n)));\n    }' % (
                            e2e.rust_str(loc), rt, oid, oid, e2e.ident(loc), rule[:3], oid, e2e.ident(loc), rule[:3]))
                c.add(body, {"name": "plural-" + rule, "args": [], "canon": ("plural", rule), "locale": loc})
    root = e2e.write_workspace("c18-custom" if custom else "c18", [c], seed=seed)
    status, secs, _ = e2e.build_workspace(root, [c])
    res.extra["e2e-custom-provider" if custom else "e2e"] = {"build_s": round(secs, 1), "observations": len(c.obs), "configurations": len(cfgs), "locales": locs}
    st = status[c.name]
    if not st["ok"]:
        res.ev()
        res.violation("C18/%se2e-documented-formatters-do-not-compile" % tagp, "\n".join(st["messages"])[:3000], {"root": root})
        return
    obs, done, rc, err = e2e.run_crate(st["exe"])
    if not done:
        res.inconclusive.append("probe crate did not finish: %s" % err[-300:])
    texts = {}
    for oid, exp in c.expect.items():
        got = obs.get(oid, {})
        if "*" in got:
            res.ev()
            icu_err = (got.get("exp0") or {}).get("v", "")
            if icu_err.startswith("<icu4x-error"):
                # ICU4X itself cannot build a formatter with these (documented) options for a plain time value
                res.violation("C18/panics-where-icu4x-reports-unsupported-field/%s(time_length=%s)" % (exp["name"], exp["canon"][-1]),
                              "%s %s locale %s: ICU4X says %s; the library panics: %s" % (exp["name"], exp["args"], exp["locale"], icu_err, got["*"].get("panic")),
                              {"formatter": exp["name"], "args": exp["args"], "locale": exp["locale"]})
                continue
            res.violation("C18/%sformatting-panicked/%s" % (tagp, exp["name"]), "%s %s locale %s: %s" % (exp["name"], exp["args"], exp["locale"], got["*"].get("panic")),
                          {"formatter": exp["name"], "args": exp["args"], "locale": exp["locale"]})
            continue
        vi = 0
        while "exp%d" % vi in got:
            want = got["exp%d" % vi]["v"]
            texts.setdefault((exp["name"], exp["locale"], vi), {}).setdefault(exp["canon"], want)
            for fl in ("s", "v", "m", "md", "mv", "mc", "mu", "mw", "mt", "mp", "mx", "my", "rs", "rv", "rh"):
                o = got.get("%s%d" % (fl, vi))
                if o is None:
                    continue
                res.ev()
                text = e2e.normalise_html(o["v"]) if fl in ("v", "mv", "mw", "mx", "my", "rv") else o["v"]
                res.count("e2e:%s%s:%s" % ("custom-provider:" if custom else "", exp["name"], FLAVOUR_NAMES[fl]))
                if exp["args"]:
                    res.nontriv([exp["canon"], exp["locale"], vi])
                if text != want:
                    res.violation("C18/%soutput-differs-from-icu/%s/%s" % (tagp, exp["name"], fl), "%s%s locale=%s value#%d: expected (ICU4X with %s) %r, got %r" % (
                        exp["name"], exp["args"], exp["locale"], vi, exp["canon"], want, text), {"formatter": exp["name"], "args": exp["args"], "locale": exp["locale"]})
                elif exp["args"]:
                    res.sample({"formatter": exp["name"], "args": exp["args"], "locale": exp["locale"], "text": text}, limit=6)
            vi += 1
    # which pairs of distinct option sets are told apart by at least one (locale, value)?
    by_name = {}
    for (name, loc, vi), m in texts.items():
        for canon, t in m.items():
            by_name.setdefault(name, {}).setdefault(canon, {})[(loc, vi)] = t
    disc, undisc = 0, []
    for name, m in by_name.items():
        for a, b in itertools.combinations(sorted(m), 2):
            if any(m[a].get(k) != m[b].get(k) for k in m[a] if k in m[b]):
                disc += 1
            else:
                undisc.append([a, b])
    res.extra["option_pairs_discriminated"] = disc
    res.extra["option_pairs_not_discriminated"] = undisc[:20]


def stress_stage(res, tier, seed):
    rt = probe.runtime_probe()
    nproc = 300 if tier == "quick" else 12000
    orders = set()
    from concurrent.futures import ThreadPoolExecutor

    def one(i):
        p = subprocess.run([rt, "fmt-stress", json.dumps({"seed": seed * 1000003 + i, "threads": 16})], stdout=subprocess.PIPE, stderr=subprocess.PIPE, text=True, timeout=300)
        return i, p
    with ThreadPoolExecutor(NCPU) as ex:
        for i, p in ex.map(one, range(nproc)):
            res.ev()
            if p.returncode != 0:
                res.violation("C18/stress-process-died", "rc=%s %s" % (p.returncode, p.stderr[-400:]), {"seed": seed * 1000003 + i})
                continue
            d = json.loads(p.stdout.split("\n")[0])
            res.ev(d["calls"])
            res.count("concurrent-calls", d["calls"])
            orders.add(tuple(d["first_arrivals"]))
            res.nontriv(["stress", i])
            for m in d["mismatches"][:3]:
                res.violation("C18/concurrent-result-differs", "seed %d: %s" % (seed * 1000003 + i, m), {"seed": seed * 1000003 + i, "mismatch": m})
    res.extra["stress_processes"] = nproc
    res.extra["first_use_orders_seen"] = len(orders)


def sanitizer_stages(res, seed):
    """Supplementary (thorough tier): the same concurrent workload under ThreadSanitizer and under Miri's
    schedule exploration. Only a report whose stack passes through a frame of /repo (or a deadlock) counts;
    anything else is logged as a dependency observation. A stage that cannot be built is inconclusive
    *for that stage only*."""
    from ..common import HARNESS, WORK, cargo_env
    stages = {}
    env = cargo_env()
    # --- ThreadSanitizer -------------------------------------------------------------------------
    env_t = dict(env, RUSTFLAGS="-Zsanitizer=thread", CARGO_TARGET_DIR=os.path.join(WORK, "target-tsan"))
    b = subprocess.run(["cargo", "+nightly", "build", "-Zbuild-std", "--target", "x86_64-unknown-linux-gnu", "--release", "--offline", "-p", "runtime_probe"],
                       cwd=HARNESS, env=env_t, stdout=subprocess.PIPE, stderr=subprocess.STDOUT, text=True)
    if b.returncode != 0:
        stages["tsan"] = {"status": "inconclusive", "reason": "build failed: " + b.stdout[-400:]}
    else:
        exe = os.path.join(WORK, "target-tsan", "x86_64-unknown-linux-gnu", "release", "runtime_probe")
        reports, qualifying, runs = 0, [], 0
        for i in range(60):
            p = subprocess.run([exe, "fmt-stress", json.dumps({"seed": seed * 7919 + i, "threads": 16})], stdout=subprocess.PIPE, stderr=subprocess.PIPE, text=True,
                               env=dict(os.environ, TSAN_OPTIONS="halt_on_error=0 exitcode=66"), timeout=600)
            runs += 1
            blocks = p.stderr.split("WARNING: ThreadSanitizer")[1:]
            reports += len(blocks)
            for blk in blocks:
                if "/repo/" in blk or "leptos_i18n" in blk:
                    qualifying.append(blk[:1500])
        stages["tsan"] = {"status": "violated" if qualifying else "held", "runs": runs, "reports": reports, "reports_through_repo_frames": len(qualifying)}
        for q in qualifying[:3]:
            res.violation("C18/tsan-report-through-repo-frame", q[:800], {"report": q})
    # --- Miri schedules --------------------------------------------------------------------------
    env_m = dict(env, MIRIFLAGS="-Zmiri-tree-borrows -Zmiri-ignore-leaks -Zmiri-disable-isolation -Zmiri-many-seeds=0..16",
                 CARGO_TARGET_DIR=os.path.join(WORK, "target-miri"))
    try:
        m = subprocess.run(["cargo", "+nightly", "miri", "run", "--offline", "-p", "runtime_probe", "--", "fmt-stress", json.dumps({"seed": seed + 1, "threads": 3})],
                           cwd=HARNESS, env=env_m, stdout=subprocess.PIPE, stderr=subprocess.PIPE, text=True, timeout=3600)
        bad = [l for l in m.stderr.split("\n") if "Undefined Behavior" in l or "deadlock" in l.lower() or "data race" in l.lower()]
        lines = [l for l in m.stdout.split("\n") if l.startswith("{")]
        mism = [l for l in lines if '"mismatches":[]' not in l]
        if m.returncode != 0 and not bad and not lines:
            stages["miri"] = {"status": "inconclusive", "reason": m.stderr[-400:]}
        else:
            through_repo = [l for l in m.stderr.split("\n") if "/repo/" in l]
            status = "violated" if (mism or (bad and through_repo) or any("deadlock" in x.lower() for x in bad)) else "held"
            stages["miri"] = {"status": status, "schedules": len(lines), "ub_or_race_lines": bad[:5], "mismatching_runs": len(mism)}
            if status == "violated":
                res.violation("C18/miri-schedule-report", (bad + mism)[0][:600], {"stderr": m.stderr[-3000:]})
    except subprocess.TimeoutExpired:
        stages["miri"] = {"status": "inconclusive", "reason": "watchdog"}
    res.extra["sanitizer_stages"] = stages


def run(tier, seed, replay=None):
    res = Result("C18", tier, seed, RULE)
    parser_stage(res, tier, seed)
    e2e_stage(res, tier, seed)
    e2e_stage(res, tier, seed, custom=True)
    stress_stage(res, tier, seed)
    if tier == "thorough" or os.environ.get("VERIF_SANITIZERS") == "1":
        sanitizer_stages(res, seed)
    res.assumptions += ["ICU4X (compiled data) constructed directly in the probe is the reference for formatted text",
                        "`list_style` is taken as the documented option name (rustdoc and tests); the book's `list_length` is not asserted either way"]
    return res.finish(min_events=1000)
