"""C19 Configuration is validated and normalised as documented.

Enumerates small configurations (locale lists with/without the default and with duplicates,
namespace lists, inherits tables incl. invalid ones, optional and unknown fields, surrounding
manifest content, directory layouts, three file formats) and compares the real
`parse_locales_raw` outcome, the normalised ConfigFile and the tracked-file list with the model.
"Exactly which files are read" is observed with poisoned decoy files and, in the thorough tier, with
strace on the probe process."""
import itertools
import json
import os
import shutil
import subprocess

from .. import gen, probe, workload
from ..common import Result, rng_for, WORK, Inconclusive

RULE = ("all small configurations over 3 locale names and 2 namespace names (plus sampled larger ones) x optional/unknown fields x "
        "surrounding manifest content x 3 file formats; an evaluation is one configuration's outcome + normalisation + file-set "
        "comparison; non-trivial = configuration has inherits, namespaces, a custom locales-dir or is expected to be rejected; "
        "distinct by hash of the configuration")

NAMES = ["en", "fr", "pt-BR"]
EXTS = {"json": ["json"], "json5": ["json5"], "yaml": ["yaml", "yml"]}
ALL_EXTS = ["json", "json5", "yaml", "yml"]

BEFORE = ["", "[dependencies]\nserde = \"1\"\n\n", "[package]\nname = \"x\"\ndescription = \"Une d\u00e9mo\u00a0: appli\u3000ok\"\n# commentaire\u00a0: \u3000\u2003fin\n\n", "[package.metadata.other]\ndefault = \"zz\"\nlocales = [\"zz\"]\n\n",
          "[[bin]]\nname = \"x\"\npath = \"src/main.rs\"\n\n[features]\ndefault = []\n\n"]
AFTER = ["", "\n[dependencies]\nserde = \"1\"\n", "\n[package.metadata.other]\nlocales = [\"zz\"]\ndefault = \"zz\"\n",
         "\n[features]\ndefault = [\"x\"]\nx = []\n\n[[bin]]\nname = \"x\"\npath = \"src/main.rs\"\n"]


def model_config(cfg):
    """("err", reason) or ("ok", {"default":.., "locales": set, "namespaces":.., "dir":..})"""
    if cfg.get("default") is None:
        return ("err", "missing default")
    if cfg.get("locales") is None:
        return ("err", "missing locales")
    default = cfg["default"]
    listed = list(cfg["locales"])
    full = listed if default in listed else listed + [default]
    if len(set(full)) != len(full):
        return ("err", "duplicate locales")
    nss = cfg.get("namespaces")
    if nss is not None and len(set(nss)) != len(nss):
        return ("err", "duplicate namespaces")
    for k, v in (cfg.get("inherits") or {}).items():
        if k not in full or v not in full:
            return ("err", "inherits names an unknown locale")
        if k == default:
            return ("err", "default locale inherits")
    return ("ok", {"default": default, "locales": full, "namespaces": nss, "dir": cfg.get("locales_dir") or "locales",
                   "inherits": cfg.get("inherits") or {}})


def expected_files(root, ok, fmt, present_ext):
    """files the loader must read, in order."""
    out = []
    d = os.path.normpath(os.path.join(root, ok["dir"]))
    first = [ok["default"]] + [l for l in ok["locales"] if l != ok["default"]]
    for ns in (ok["namespaces"] or [None]):
        for l in first:
            base = os.path.join(d, l) if ns is None else os.path.join(d, l, ns)
            out.append(base + "." + present_ext)
    return out


def write_layout(root, cfg, ok, fmt, present_ext, rng, before, after):
    shutil.rmtree(root, ignore_errors=True)
    os.makedirs(root)
    with open(os.path.join(root, "Cargo.toml"), "w") as f:
        f.write(gen.config_toml(cfg, rng=rng, extra_before=before, extra_after=after))
    if ok is None:
        # still provide files for every name so that a wrongly accepted config gets as far as reading them
        ok = {"default": cfg.get("default") or "en", "locales": list(dict.fromkeys((cfg.get("locales") or []) + [cfg.get("default") or "en"])),
              "namespaces": cfg.get("namespaces"), "dir": cfg.get("locales_dir") or "locales"}
    d = os.path.join(root, ok["dir"])
    good = {}
    for ns in (list(dict.fromkeys(ok["namespaces"])) if ok["namespaces"] else [None]):
        for l in ok["locales"]:
            base = os.path.join(d, l) if ns is None else os.path.join(d, l, ns)
            os.makedirs(os.path.dirname(base), exist_ok=True)
            marker = "read:%s:%s" % (ns, l)
            content = {"json": json.dumps({"marker": marker}), "json5": "{marker: '%s'}" % marker, "yaml": "marker: \"%s\"\n" % marker}[fmt]
            with open(base + "." + present_ext, "w") as f:
                f.write(content)
            good[(ns, l)] = marker
            # poisoned decoys: twins with the other extensions
            for e in ALL_EXTS:
                if e == present_ext or (fmt == "yaml" and present_ext == "yml" and e == "yaml"):
                    continue
                if fmt == "yaml" and e in EXTS["yaml"]:
                    # `.yml` twin of a `.yaml` file: valid but different content (must not be the one read)
                    with open(base + "." + e, "w") as f:
                        f.write("marker: \"DECOY\"\n")
                else:
                    with open(base + "." + e, "w") as f:
                        f.write("}}} this is not a translation file {{{")
    # unlisted locale and a stray default directory
    os.makedirs(d, exist_ok=True)
    with open(os.path.join(d, "zz-unlisted." + present_ext), "w") as f:
        f.write("}}} poisoned {{{")
    # a locales-dir with `..` or an absolute one: a decoy where the path would lead if those components were dropped
    inner = os.path.join(root, *[c_ for c_ in ok["dir"].split("/") if c_ not in ("..", ".", "")])
    if os.path.normpath(inner) != os.path.normpath(d):
        for ns in (list(dict.fromkeys(ok["namespaces"])) if ok["namespaces"] else [None]):
            for l in ok["locales"]:
                base = os.path.join(inner, l) if ns is None else os.path.join(inner, l, ns)
                os.makedirs(os.path.dirname(base), exist_ok=True)
                with open(base + "." + present_ext, "w") as f:
                    f.write({"json": json.dumps({"marker": "DECOY-inner"}), "json5": "{marker: 'DECOY-inner'}", "yaml": "marker: \"DECOY-inner\"\n"}[fmt])
    if ok["dir"] not in ("locales", "./locales"):
        os.makedirs(os.path.join(root, "locales"), exist_ok=True)
        for l in ok["locales"]:
            with open(os.path.join(root, "locales", l + "." + present_ext), "w") as f:
                f.write("}}} poisoned default dir {{{")
    return good


def configs(rng, tier):
    """enumeration of small configurations."""
    out = []
    lists = []
    for r in range(0, 4):
        for combo in itertools.product(NAMES, repeat=r):
            lists.append(list(combo))
    nss_opts = [None, ["common"], ["common", "home"], ["common", "common"], ["common", "home", "common"]]
    for default in (None, "en", "fr"):
        for listed in lists + [None]:
            for nss in (nss_opts if (listed is not None and len(listed) <= 2) else nss_opts[:2]):
                out.append({"default": default, "locales": listed, "namespaces": nss, "inherits": {}})
    # inherits tables over a fixed locale set, listed with and without the default
    for listed in (["en", "fr", "pt-BR"], ["fr", "pt-BR"]):
        others = ["fr", "pt-BR"]
        targets = [None, "en", "fr", "pt-BR", "xx"]
        for t1, t2 in itertools.product(targets, repeat=2):
            inh = {k: v for k, v in zip(others, (t1, t2)) if v is not None}
            out.append({"default": "en", "locales": listed, "namespaces": None, "inherits": inh})
        for bad in ({"en": "fr"}, {"xx": "en"}, {"en": "en"}, {"xx": "yy"}):
            out.append({"default": "en", "locales": listed, "namespaces": None, "inherits": bad})
    for ci, c in enumerate(out):
        c["locales_dir"] = gen.pick(rng, [None, None, "i18n", "./tr", "a/b/c", "locales", "../out%d/locales" % ci, "./a/../b", "ABS"])
        c["translations_path"] = gen.pick(rng, [None, None, "i18n/{locale}.json"])
        c["unknown_fields"] = gen.pick(rng, [None, None, {"foo": "bar"}, {"extra-field": [1, 2]}, {"Default": "zz"}])
    if tier == "quick":
        rng.shuffle(out)
        out = out[:450]
    return out


def run(tier, seed, replay=None):
    res = Result("C19", tier, seed, RULE)
    rng = rng_for(seed, "C19")
    cfgs = configs(rng, tier)
    root = os.path.join(WORK, "proj", "c19")
    shutil.rmtree(root, ignore_errors=True)
    by_fmt = {"json": [], "json5": [], "yaml": []}
    for i, cfg in enumerate(cfgs):
        fmt = ["json", "json", "yaml", "json5"][i % 4]
        d = os.path.join(root, str(i))
        if cfg.get("locales_dir") == "ABS":
            cfg["locales_dir"] = os.path.join(root, "abs%d" % i, "tr")       # an absolute locales-dir outside the crate
        kind, ok = model_config(cfg)
        ext = gen.pick(rng, EXTS[fmt])
        good = write_layout(d, cfg, ok if kind == "ok" else None, fmt, ext, rng, gen.pick(rng, BEFORE), gen.pick(rng, AFTER))
        by_fmt[fmt].append((i, d, cfg, kind, ok, ext, good))
    strace_jobs = []
    for fmt, items in by_fmt.items():
        binary = probe.parser_probe(fmt)
        outs = probe.run_parallel(binary, [{"id": i, "dir": d, "mode": "raw"} for i, d, *_ in items])
        for i, d, cfg, kind, ok, ext, good in items:
            o = outs.get(i, {"outcome": "lost"})
            res.ev()
            nontriv = kind == "err" or cfg.get("inherits") or cfg.get("namespaces") or cfg.get("locales_dir")
            if nontriv:
                res.nontriv(cfg)
            shown = {k: v for k, v in cfg.items() if v not in (None, {}, [])}
            if kind == "err":
                res.count("expected-rejected:" + ok)
                if o["outcome"] != "err":
                    res.violation("C19/invalid-config-accepted/" + ok.replace(" ", "-"), "config %s (%s) gave outcome %s %s" % (shown, ok, o["outcome"], o.get("msg", "")),
                                  {"cfg": cfg, "format": fmt, "dir": d})
                elif not o.get("err", "").strip():
                    res.violation("C19/empty-error", "config %s" % shown, {"cfg": cfg})
                continue
            res.count("expected-accepted")
            if o["outcome"] != "ok":
                res.violation("C19/valid-config-rejected/" + str(o.get("err_kind") or o["outcome"]), "config %s: %s" % (shown, o.get("err") or o.get("msg")),
                              {"cfg": cfg, "format": fmt, "dir": d})
                continue
            c = o["cfg"]
            problems = []
            if not c["locales"] or c["locales"][0] != ok["default"]:
                problems.append("default %r is not first in %r" % (ok["default"], c["locales"]))
            if sorted(c["locales"]) != sorted(ok["locales"]):
                problems.append("locales %r, expected the set %r" % (c["locales"], ok["locales"]))
            if c["default"] != ok["default"] or c["namespaces"] != ok["namespaces"] or c["inherits"] != ok["inherits"]:
                problems.append("fields differ: %r" % c)
            if c["locales_dir"] != ok["dir"]:
                problems.append("locales_dir %r expected %r" % (c["locales_dir"], ok["dir"]))
            # file set: tracked list and markers actually read
            want_files = set(os.path.normpath(p) for p in expected_files(d, ok, fmt, ext))
            got_files = [os.path.normpath(p) for p in o["tracked"]]
            if set(got_files) != want_files or len(got_files) != len(want_files):
                problems.append("tracked files %r expected %r" % (sorted(got_files), sorted(want_files)))
            read = {}
            raw = o["raw"]
            units = [(ns["key"], ns["locales"]) for ns in raw["namespaces"]] if raw["kind"] == "namespaces" else [(None, raw["locales"])]
            for ns, locs in units:
                for l in locs:
                    vals = dict((k, v) for k, v in l["keys"])
                    read[(ns, l["name"])] = (vals.get("marker") or {}).get("v")
            if read != good:
                problems.append("contents read %r expected %r" % (read, good))
            if problems:
                res.violation("C19/normalisation-or-file-set-differs", "config %s format %s: %s" % (shown, fmt, "; ".join(problems)),
                              {"cfg": cfg, "format": fmt, "dir": d, "observed": {k: v for k, v in o.items() if k != "raw"}})
            else:
                res.sample({"config": shown, "format": fmt, "normalised_locales": c["locales"], "files_read": sorted(os.path.relpath(p, d) for p in got_files)}, limit=5)
                if nontriv and len(strace_jobs) < (6 if tier == "quick" else 60):
                    strace_jobs.append((binary, d, want_files))
    # ground truth for "which files are read": strace on the probe
    opened_total = 0
    for binary, d, want in strace_jobs:
        p = subprocess.run(["strace", "-f", "-e", "trace=openat,open", binary], input=json.dumps({"id": 0, "dir": d, "mode": "raw"}) + "\n",
                           stdout=subprocess.PIPE, stderr=subprocess.PIPE, text=True, timeout=120)
        if p.returncode != 0 and "ptrace" in p.stderr.lower():
            res.extra["strace"] = "unavailable: " + p.stderr[:120]
            break
        opened = set()
        for line in p.stderr.split("\n"):
            # anything under the workload root counts (a locales-dir may point outside the crate directory)
            if os.path.dirname(d) + os.sep in line and "ENOENT" not in line and "O_DIRECTORY" not in line:
                path = line.split('"')[1]
                if not path.endswith("Cargo.toml"):
                    opened.add(os.path.normpath(path))
        res.ev()
        res.count("strace-runs")
        opened_total += len(opened)
        if opened != want:
            res.violation("C19/strace-opened-other-files", "opened %r expected %r" % (sorted(opened), sorted(want)), {"dir": d})
    res.extra["strace_files_opened"] = opened_total
    res.extra["configurations"] = len(cfgs)
    res.assumptions += ["only the documented inline spelling of the section is generated (TOML-equivalent re-spellings are outside the property)",
                        "decoy files are syntactically poisoned: reading one changes the outcome"]
    return res.finish(min_events=300)
