"""C20 The build helper requests exactly the ICU data the translations use.

Sparse-placement workload: a project without any plural or formatter gets exactly one usage in one
randomly chosen place (only a non-default locale, only a deep subkey, only the second namespace,
only behind a foreign key, inside a range branch or a component, only in a surplus key...). Each data
family has a marker key only it requests; marker present <=> model says the family is used."""
import copy

from .. import gen, model, probe, projects, workload
from ..common import Result, rng_for
from ..gen import GenCfg, pick

RULE = ("plural/formatter-free generated projects with 0..2 usages inserted at random places; an evaluation is one (project, data "
        "family) presence comparison plus the locale/namespace lists; non-trivial = a usage exists outside the default locale's "
        "top-level keys; distinct by (family, placement kind)")

MARKERS = {"plurals": "plurals/cardinal@1", "list": "list/and@1", "datetime": "datetime/timesymbols@1", "currency": "currency/essentials@1"}
FAMILY_OF = {"number": "nums", "currency": "currency", "date": "datetime", "time": "datetime", "datetime": "datetime", "list": "list"}
FMT_SEGS = {
    "number": {"name": "number", "args": None}, "currency": {"name": "currency", "args": [["width", "narrow"]]},
    "date": {"name": "date", "args": [["date_length", "long"]]}, "time": {"name": "time", "args": None},
    "datetime": {"name": "datetime", "args": None}, "list": {"name": "list", "args": [["list_type", "and"]]},
}


def usage_node(rng, what):
    if what == "plural":
        rule = pick(rng, ["cardinal", "ordinal"])
        if rng.random() < 0.4:
            # the `other` form is plain text, the count only shows in another form
            return {"k": "plural", "rule": rule, "forms": {"one": [{"s": "var", "name": "count", "fmt": None}, {"s": "text", "v": " item"}], "other": [{"s": "text", "v": "several items"}]}}
        return {"k": "plural", "rule": rule, "forms": {"one": [{"s": "text", "v": "one"}], "other": [{"s": "var", "name": "count", "fmt": None}, {"s": "text", "v": " many"}]}}
    seg = {"s": "var", "name": "fv", "fmt": copy.deepcopy(FMT_SEGS[what])}
    style = rng.random()
    if what in ("number", "currency") and style < 0.3:
        # the formatter sits on the *count* variable of a plural / a range (two families from one variable)
        cseg = {"s": "var", "name": "count", "fmt": copy.deepcopy(FMT_SEGS[what])}
        if rng.random() < 0.6:
            other = [copy.deepcopy(cseg), {"s": "text", "v": " items"}] if rng.random() < 0.6 else [{"s": "text", "v": "several items"}]
            return {"k": "plural", "rule": "cardinal", "forms": {"one": [copy.deepcopy(cseg), {"s": "text", "v": " item"}], "other": other}}
        return {"k": "range", "ty": "u32", "branches": [{"specs": [{"r": "exact", "v": 0}], "segs": [{"s": "text", "v": "none"}]},
                                                        {"specs": None, "fb": "_", "segs": [cseg, {"s": "text", "v": " x"}]}]}
    if style < 0.4:
        return {"k": "tmpl", "segs": [{"s": "text", "v": "v: "}, seg]}
    if style < 0.7:
        return {"k": "tmpl", "segs": [{"s": "comp", "name": "b", "inner": [seg]}, {"s": "text", "v": "."}]}
    return {"k": "range", "ty": "u8", "branches": [{"specs": [{"r": "exact", "v": 0}], "segs": [{"s": "text", "v": "none"}]},
                                                   {"specs": None, "fb": "_", "segs": [seg, {"s": "text", "v": " x"}]}]}


def walk_trees(tree, prefix=()):
    yield prefix, tree
    for k, n in tree:
        if n["k"] == "sub":
            yield from walk_trees(n["tree"], prefix + (k,))


def place(rng, project, what, ns_forced=None):
    """Inserts one usage; returns a label of the placement kind."""
    cfg = project["cfg"]
    locales = gen.effective_locales(cfg)
    default = locales[0]
    nss = cfg.get("namespaces") or [None]
    ns = nss[-1] if rng.random() < 0.6 else pick(rng, nss)
    if ns_forced is not None:
        ns = ns_forced
    kind = pick(rng, ["default-top", "non-default-only", "deep-subkey", "behind-fk", "surplus-unreferenced", "surplus-referenced"])
    if len(locales) == 1 and kind in ("non-default-only", "surplus-unreferenced", "surplus-referenced"):
        kind = "default-top"
    node = usage_node(rng, what)
    key = "zz_%s" % what
    # what the locales that do not use the family write instead: a string, or a bare number / boolean
    plain = pick(rng, [{"k": "lit", "ty": "str", "v": "plain"}, {"k": "lit", "ty": "str", "v": "plain"}, {"k": "lit", "ty": "int", "v": 3}, {"k": "lit", "ty": "bool", "v": True}])
    if what != "plural" and rng.random() < 0.3:
        # one variable of one key carries two formatter families: in the same value, or one per locale
        what2 = pick(rng, [w for w in FMT_SEGS if FAMILY_OF[w] != FAMILY_OF[what]])
        s1 = {"s": "var", "name": "fv", "fmt": copy.deepcopy(FMT_SEGS[what])}
        s2 = {"s": "var", "name": "fv", "fmt": copy.deepcopy(FMT_SEGS[what2])}
        if len(locales) > 1 and rng.random() < 0.6:
            order = [s1, s2] if rng.random() < 0.5 else [s2, s1]
            for i, l in enumerate(locales):
                project["data"][(ns, l)].append([key, {"k": "tmpl", "segs": [{"s": "text", "v": "v: "}, copy.deepcopy(order[min(i, 1)])]}])
            lab = "two-families-one-variable/across-locales"
        else:
            for l in locales:
                segs = [copy.deepcopy(s1), {"s": "text", "v": " / "}, copy.deepcopy(s2)]
                if rng.random() < 0.5:
                    segs.reverse()
                project["data"][(ns, l)].append([key, {"k": "tmpl", "segs": segs}])
            lab = "two-families-one-variable/same-value"
        for l in locales:
            rng.shuffle(project["data"][(ns, l)])
        return lab + "/" + "+".join(sorted([what, what2]))
    if kind == "default-top":
        for l in locales:
            project["data"][(ns, l)].append([key, copy.deepcopy(node) if (l == default or rng.random() < 0.5) else dict(plain)])
    elif kind == "non-default-only":
        victim = pick(rng, locales[1:])
        for l in locales:
            project["data"][(ns, l)].append([key, copy.deepcopy(node) if l == victim else dict(plain)])
    elif kind == "deep-subkey":
        for l in locales:
            n = copy.deepcopy(node) if (l == default or rng.random() < 0.5) else dict(plain)
            project["data"][(ns, l)].append(["zz_grp_%s" % what, {"k": "sub", "tree": [["inner", {"k": "sub", "tree": [[key, n]]}]]}])
    elif kind == "behind-fk":
        for l in locales:
            project["data"][(ns, l)].append([key, copy.deepcopy(node)])
            args = [["count", {"a": "str", "segs": [{"s": "var", "name": "n2", "fmt": None}]}]] if what == "plural" and rng.random() < 0.5 else None
            project["data"][(ns, l)].append(["zz_ref_%s" % what, {"k": "tmpl", "segs": [{"s": "text", "v": "ref: "}, {"s": "fk", "ns": ns, "path": [key], "args": args}]}])
    elif kind == "surplus-unreferenced":
        victim = pick(rng, locales[1:])
        project["data"][(ns, victim)].append([key, copy.deepcopy(node)])
    else:
        victim = pick(rng, locales[1:])
        project["data"][(ns, victim)].append([key, copy.deepcopy(node)])
        for l in locales:
            if l == victim:
                project["data"][(ns, l)].append(["zz_ref_%s" % what, {"k": "tmpl", "segs": [{"s": "fk", "ns": ns, "path": [key], "args": None}]}])
            else:
                project["data"][(ns, l)].append(["zz_ref_%s" % what, dict(plain)])
    for l in locales:
        rng.shuffle(project["data"][(ns, l)])
    return kind + ("/last-namespace" if (len(nss) > 1 and ns == nss[-1]) else "")


def model_used(project):
    cfg = project["cfg"]
    locales = gen.effective_locales(cfg)
    used = set()
    resolver = model.Resolver(project, None)
    for ns in (cfg.get("namespaces") or [None]):
        for path, _ in model.leaf_paths(project["data"][(ns, locales[0])]):
            for l in locales:
                tree = project["data"][(ns, l)]
                n = model.lookup(tree, path)
                if n is None or n["k"] == "null":
                    continue
                rn = resolver.key(ns, l, path)
                v, c, cnt = model.collect_vars(rn)
                if any("plural" in k for k in cnt.values()):
                    used.add("plurals")
                for fmts in v.values():
                    for f in fmts:
                        if f:
                            used.add(FAMILY_OF[f])
    return used


def run(tier, seed, replay=None):
    res = Result("C20", tier, seed, RULE)
    rng = rng_for(seed, "C20")
    n = 300 if tier == "quick" else 30000
    cfg = GenCfg(p_plural=0, p_range=0.1, p_fk=0.2, p_sub=0.25, namespaces=0.45, n_locales=(1, 4), p_null=0.05, p_absent=0.1, p_surplus=0.2)
    projs, labels = [], []
    for i in range(n):
        p = projects.gen_valid_project(rng, cfg)
        lab = []
        nss = p["cfg"].get("namespaces")
        if nss and len(nss) >= 2 and rng.random() < 0.25:
            # every family at once: four of them in the namespaces that sort first, the fifth only in the one that sorts last
            fams = ["plural", "number", "currency", pick(rng, ["date", "time", "datetime"]), "list"]
            rng.shuffle(fams)
            order = sorted(nss)
            for k, what in enumerate(fams):
                lab.append((what, place(rng, p, what, ns_forced=order[-1] if k == 4 else pick(rng, order[:-1]))))
        else:
            for what in rng.sample(["plural", "number", "currency", "date", "time", "datetime", "list"], pick(rng, [0, 1, 1, 1, 2])):
                lab.append((what, place(rng, p, what)))
        projs.append(p)
        labels.append(lab)
    dirs, _ = workload.materialise(projs, "c20", seed=seed)
    bp = probe.build_probe()
    outs = probe.run_parallel(bp, [{"id": i, "dir": d} for i, d in enumerate(dirs)])
    required = probe.required_keys()
    res.extra["required_keys_oracle"] = required
    for i, (p, lab) in enumerate(zip(projs, labels)):
        o = outs.get(i, {"outcome": "lost"})
        try:
            used = model_used(p)
        except model.ModelError as e:
            res.count("model-skip:" + e.kind)
            continue
        res.ev()
        if o["outcome"] != "ok":
            res.violation("C20/valid-project-rejected/" + o["outcome"], str(o.get("err") or o.get("msg")), {"project": gen.project_to_jsonable(p), "placements": lab})
            continue
        keys = set(o["icu_keys"])
        for fam, marker in MARKERS.items():
            res.ev()
            want = fam in used
            got = marker in keys
            res.count("family:%s:%s" % (fam, "used" if want else "unused"))
            if want != got:
                res.violation("C20/%s-data-%s/%s" % (fam, "missing" if want else "requested-but-unused", "+".join(sorted(k for w, k in lab)) or "none"),
                              "placements=%s: model says %s %s, helper requested keys %s" % (lab, fam, "used" if want else "not used", sorted(keys)),
                              {"project": gen.project_to_jsonable(p), "placements": lab, "icu_keys": sorted(keys)})
        # used => every key ICU4X demands from a provider for that family's formatter is requested (the list comes from the
        # markers in the bounds of ICU4X's own `try_new_unstable` constructors, see harness/runtime_probe/src/required.rs)
        for fam in sorted(used):
            res.ev()
            missing = [k for k in required[fam] if k not in keys]
            if missing:
                res.violation("C20/%s-formatter-needs-key-not-requested/%s" % (fam, "+".join(missing)),
                              "placements=%s: %s is used, ICU4X needs %s to build its formatter, helper requested %s" % (lab, fam, required[fam], sorted(keys)),
                              {"project": gen.project_to_jsonable(p), "placements": lab, "icu_keys": sorted(keys), "missing": missing})
        res.ev()
        want_dec = bool({"nums", "datetime", "currency"} & used)
        if want_dec != ("decimal/symbols@1" in keys):
            res.violation("C20/decimal-symbols-%s" % ("missing" if want_dec else "requested-but-unused"), "placements=%s keys=%s" % (lab, sorted(keys)),
                          {"project": gen.project_to_jsonable(p)})
        for what, kind in lab:
            if not kind.startswith("default-top"):
                res.nontriv([what, kind])
        # locales / namespaces reported
        res.ev()
        want_locs = sorted(gen.effective_locales(p["cfg"]))
        if sorted(o["locales"]) != want_locs or len(o["locales"]) != len(want_locs) or sorted(o["langids"]) != want_locs:
            res.violation("C20/reported-locales-differ", "reported %s / %s, configured %s" % (o["locales"], o["langids"], want_locs), {"project": gen.project_to_jsonable(p)})
        if (o["namespaces"] or None) != (p["cfg"].get("namespaces") or None):
            res.violation("C20/reported-namespaces-differ", "reported %s configured %s" % (o["namespaces"], p["cfg"].get("namespaces")), {"project": gen.project_to_jsonable(p)})
        if lab:
            res.sample({"placements": lab, "families_used": sorted(used), "marker_keys_present": sorted(m for m in MARKERS.values() if m in keys)}, limit=6)
    res.extra["projects"] = n
    res.assumptions += ["marker data keys identify a family (plurals/cardinal@1, list/and@1, datetime/timesymbols@1, currency/essentials@1; decimal/symbols@1 <=> number, currency or datetime)",
                        "the keys a family needs are the KEYs of the markers in the bounds of ICU4X's try_new_unstable constructors (compile-checked in the probe)",
                        "actually generating a data provider needs CLDR sources from the network: only the requested key set is checked"]
    return res.finish(min_events=500)
