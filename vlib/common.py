"""Shared plumbing: paths, seeds, cargo builds, evidence files, verdict lines."""
import hashlib
import json
import os
import random
import shutil
import subprocess
import sys
import time

VERIF = os.path.dirname(os.path.dirname(os.path.abspath(__file__)))
REPO = os.environ.get("VERIF_REPO", "/repo")
WORK = os.path.join(VERIF, "work")
HARNESS = os.path.join(VERIF, "harness")
TARGET = os.path.join(WORK, "target")
# bin/try_seeded points this elsewhere so that runs against a deliberately broken tree never overwrite the evidence of the real one
EVIDENCE = os.environ.get("VERIF_EVIDENCE_DIR") or os.path.join(VERIF, "evidence")
REPLAY = os.path.join(WORK, "replay")
NCPU = min(16, os.cpu_count() or 4)


class Inconclusive(Exception):
    """The run could not decide the property (harness did not build, too few events, watchdog)."""


def seed_from_env():
    try:
        return int(os.environ.get("VERIF_SEED", "0"))
    except ValueError:
        return 0


def cargo_env():
    env = dict(os.environ)
    env["CARGO_NET_OFFLINE"] = "true"
    env.setdefault("CARGO_TERM_COLOR", "never")
    env["CARGO_TARGET_DIR"] = TARGET
    # never let a caller's RUSTFLAGS leak into the harness builds
    env.pop("RUSTFLAGS", None)
    return env


def ensure_lock(ws_dir):
    """Copy /repo/Cargo.lock into a harness workspace when missing (dependency versions must match
    what the repository resolves; nothing can be fetched)."""
    lock = os.path.join(ws_dir, "Cargo.lock")
    if not os.path.exists(lock):
        shutil.copy(os.path.join(REPO, "Cargo.lock"), lock)


def cargo_build(package, ws_dir=HARNESS, release=False, features=None, extra=None, timeout=3600):
    """Builds one package of a harness workspace against /repo's current working tree.
    Returns the path of the binary. Raises Inconclusive when the build fails: a harness that does
    not compile against an edited tree decides nothing."""
    ensure_lock(ws_dir)
    cmd = ["cargo", "build", "--offline", "-p", package]
    if release:
        cmd.append("--release")
    if features:
        cmd += ["--features", ",".join(features)]
    if extra:
        cmd += extra
    t0 = time.time()
    p = subprocess.run(cmd, cwd=ws_dir, env=cargo_env(), stdout=subprocess.PIPE,
                       stderr=subprocess.STDOUT, text=True, timeout=timeout)
    if p.returncode != 0:
        tail = "\n".join(p.stdout.splitlines()[-40:])
        raise Inconclusive("cargo build -p %s failed (%.0fs):\n%s" % (package, time.time() - t0, tail))
    return os.path.join(TARGET, "release" if release else "debug", package)


def h(obj):
    return hashlib.sha1(json.dumps(obj, sort_keys=True, ensure_ascii=False, default=str).encode()).hexdigest()[:12]


class Result:
    """Collects what one check run observed and writes evidence/<id>.json."""

    def __init__(self, prop, tier, seed, rule):
        self.prop = prop
        self.tier = tier
        self.seed = seed
        self.rule = rule
        self.t0 = time.time()
        self.evaluations = 0
        self.nontrivial = set()
        self.samples = []
        self.violations = []      # (signature, replay path, text)
        self.known_hits = {}      # signature -> count
        self.extra = {}
        self.assumptions = []
        self.inconclusive = []
        self.kinds = {}
        self._known = load_known(prop)
        # replay directories belong to one run
        if os.path.isdir(REPLAY):
            for d in os.listdir(REPLAY):
                if d.startswith(prop + "-"):
                    shutil.rmtree(os.path.join(REPLAY, d), ignore_errors=True)

    def count(self, kind, n=1):
        self.kinds[kind] = self.kinds.get(kind, 0) + n

    def ev(self, n=1):
        self.evaluations += n

    def nontriv(self, case):
        self.nontrivial.add(case if isinstance(case, str) else h(case))

    def sample(self, s, limit=6):
        if len(self.samples) < limit:
            self.samples.append(s)

    def violation(self, signature, what, replay_obj):
        """signature: stable classifier of the failing case; replay_obj: everything needed to
        re-run just this case."""
        for kf in self._known:
            if kf["signature"] == signature:
                self.known_hits[signature] = self.known_hits.get(signature, 0) + 1
                return False
        nsig = sum(1 for s_, _, _ in self.violations if s_ == signature)
        if nsig >= 3 or len(self.violations) >= 400:
            self.violations.append((signature, None, what))
            return True
        d = os.path.join(REPLAY, "%s-%s" % (self.prop, h([signature, replay_obj])))
        os.makedirs(d, exist_ok=True)
        with open(os.path.join(d, "case.json"), "w") as f:
            json.dump({"property": self.prop, "signature": signature, "what": what, "seed": self.seed,
                       "tier": self.tier, "case": replay_obj}, f, indent=1, ensure_ascii=False, default=str)
        self.violations.append((signature, d, what))
        return True

    def finish(self, min_events=1, level="exploration"):
        wall = time.time() - self.t0
        verdict = "held"
        if self.inconclusive or self.evaluations < min_events or len(self.nontrivial) < 2:
            verdict = "inconclusive"
            if self.evaluations < min_events:
                self.inconclusive.append("only %d evaluations (< %d)" % (self.evaluations, min_events))
            if len(self.nontrivial) < 2:
                self.inconclusive.append("fewer than 2 distinct non-trivial cases")
        if self.violations:
            verdict = "violated"
        cov = {
            "evaluations": self.evaluations,
            "distinct_nontrivial": len(self.nontrivial),
            "rule": self.rule,
            "samples": self.samples or ["<none>"],
            "kinds_seen": self.kinds,
            "verdict": verdict,
            "known_findings_hit": self.known_hits,
            "inconclusive_reasons": self.inconclusive,
        }
        cov.update(self.extra)
        ev = {
            "property_id": self.prop, "tier": self.tier, "seed": self.seed, "level": level,
            "coverage": cov, "assumptions": self.assumptions, "wall_s": round(wall, 2),
            "violations": len(self.violations),
        }
        os.makedirs(EVIDENCE, exist_ok=True)
        with open(os.path.join(EVIDENCE, self.prop + ".json"), "w") as f:
            json.dump(ev, f, indent=1, ensure_ascii=False, default=str)
        for kf in self._known:
            if self.known_hits.get(kf["signature"]):
                print("KNOWN-FINDING: property=%s %s (signature %s, seen %d times)" % (
                    self.prop, kf["what"], kf["signature"], self.known_hits[kf["signature"]]))
        sig_counts = {}
        for sig, d, what in self.violations:
            sig_counts[sig] = sig_counts.get(sig, 0) + 1
        for sig in sorted(sig_counts):
            print("  violation class %-70s x%d" % (sig, sig_counts[sig]))
        seen = set()
        for sig, d, what in self.violations:
            if d is None or sig in seen:
                continue
            seen.add(sig)
            print("VIOLATION property=%s replay=%s" % (self.prop, d))
            print("  signature: %s" % sig)
            print("  %s" % (what[:600],))
        print("[%s %s seed=%d] verdict=%s evaluations=%d distinct_nontrivial=%d violations=%d wall=%.1fs" % (
            self.prop, self.tier, self.seed, verdict, self.evaluations, len(self.nontrivial),
            len(self.violations), wall))
        for k in sorted(self.kinds):
            print("    %-40s %d" % (k, self.kinds[k]))
        for r in self.inconclusive:
            print("  inconclusive: %s" % r)
        if verdict == "violated":
            return 1
        if verdict == "inconclusive":
            return 2
        return 0


def load_known(prop):
    p = os.path.join(VERIF, "known_findings.json")
    if not os.path.exists(p):
        return []
    with open(p) as f:
        data = json.load(f)
    return [x for x in data.get("findings", []) if x.get("property") == prop]


def rng_for(seed, *salt):
    return random.Random("%d/%s" % (seed, "/".join(str(s) for s in salt)))


def fresh_dir(*parts):
    d = os.path.join(WORK, *parts)
    if os.path.exists(d):
        shutil.rmtree(d)
    os.makedirs(d)
    return d


def write_inconclusive(prop, tier, seed, reason):
    os.makedirs(EVIDENCE, exist_ok=True)
    ev = {"property_id": prop, "tier": tier, "seed": seed, "level": "exploration",
          "coverage": {"evaluations": 0, "distinct_nontrivial": 0, "rule": "run was inconclusive", "samples": ["<none>"],
                       "verdict": "inconclusive", "inconclusive_reasons": [reason[-2000:]]},
          "wall_s": 0.0, "violations": 0}
    with open(os.path.join(EVIDENCE, prop + ".json"), "w") as f:
        json.dump(ev, f, indent=1)
