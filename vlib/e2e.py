"""End-to-end boundary: generated probe crates that call `load_locales!()` and the t*! macro family,
compiled by cargo against /repo and executed. Each observation is one JSON line
{"id": n, "f": flavour, "v": text} or {"id": n, "f": flavour, "panic": message}."""
import html
import json
import os
import re
import shutil
import subprocess
import time

from . import gen, rustfmt
from .common import WORK, TARGET, REPO, Inconclusive, cargo_env, NCPU

E2E_ROOT = os.path.join(WORK, "e2e")

SUPPORT_RS = r'''
#![allow(warnings)]
use leptos::prelude::*;
use std::fmt;

pub fn js(s: &str) -> String {
    let mut o = String::with_capacity(s.len() + 2);
    o.push('"');
    for c in s.chars() {
        match c {
            '"' => o.push_str("\\\""),
            '\\' => o.push_str("\\\\"),
            '\n' => o.push_str("\\n"),
            '\r' => o.push_str("\\r"),
            '\t' => o.push_str("\\t"),
            c if (c as u32) < 0x20 => o.push_str(&format!("\\u{:04x}", c as u32)),
            c => o.push(c),
        }
    }
    o.push('"');
    o
}

pub fn emit(id: u32, f: &str, v: &str) {
    println!("{{\"id\":{},\"f\":{},\"v\":{}}}", id, js(f), js(v));
}

pub fn html<T: IntoView>(v: T) -> String {
    v.into_view().to_html()
}

/// DisplayComponent marker for string flavours: ⟦name: children :name⟧
pub fn dc(name: &'static str) -> impl Fn(&mut fmt::Formatter<'_>, &dyn Fn(&mut fmt::Formatter<'_>) -> fmt::Result) -> fmt::Result + Clone {
    move |f, ch| {
        write!(f, "\u{27e6}{}:", name)?;
        ch(f)?;
        write!(f, ":{}\u{27e7}", name)
    }
}

/// view component marker: same text as `dc`
pub fn vc(name: &'static str) -> impl Fn(leptos::children::ChildrenFn) -> AnyView + Clone + Send + Sync + 'static {
    move |ch| {
        let open = format!("\u{27e6}{}:", name);
        let close = format!(":{}\u{27e7}", name);
        view! { {open} {ch()} {close} }.into_any()
    }
}

// ---- reactive runtime support: a single-threaded queued executor drained at quiescent points ----
use futures::executor::{LocalPool, LocalSpawner};
use futures::task::LocalSpawnExt;
use std::cell::RefCell;

thread_local! {
    static POOL: RefCell<LocalPool> = RefCell::new(LocalPool::new());
    static SPAWNER: LocalSpawner = POOL.with(|p| p.borrow().spawner());
}
struct Exec;
impl any_spawner::CustomExecutor for Exec {
    fn spawn(&self, fut: any_spawner::PinnedFuture<()>) { SPAWNER.with(|s| { let _ = s.spawn_local(fut); }); }
    fn spawn_local(&self, fut: any_spawner::PinnedLocalFuture<()>) { SPAWNER.with(|s| { let _ = s.spawn_local(fut); }); }
    fn poll_local(&self) { tick(); }
}
pub fn tick() {
    POOL.with(|p| if let Ok(mut p) = p.try_borrow_mut() { p.run_until_stalled(); });
}
pub fn init_exec() {
    let _ = any_spawner::Executor::init_local_custom_executor(Exec);
}

/// Runs `f` under a fresh Owner with a provided I18nContext whose locale was set to `locale`
/// (cookies disabled, no Accept-Language header).
pub fn with_ctx<L: leptos_i18n::Locale, R>(locale: L, f: impl FnOnce(leptos_i18n::I18nContext<L>) -> R) -> R {
    use leptos_i18n::context::{init_i18n_context_with_options, CookieOptions, I18nContextOptions, UseLocalesOptions};
    init_exec();
    let owner = Owner::new();
    let r = owner.with(|| {
        let cookie_opts: CookieOptions<L> = CookieOptions::default()
            .ssr_cookies_header_getter(|| None)
            .ssr_set_cookie(|_: &_| {});
        let lang = UseLocalesOptions::default().ssr_lang_header_getter(|| None);
        let opts = I18nContextOptions::<L>::default()
            .enable_cookie(false)
            .cookie_options(cookie_opts)
            .ssr_lang_header_getter(lang);
        let i18n = init_i18n_context_with_options(opts);
        provide_context(i18n);
        tick();
        i18n.set_locale(locale);
        tick();
        f(i18n)
    });
    tick();
    drop(owner);
    r
}

pub fn guard(id: u32, f: fn()) {
    let r = std::panic::catch_unwind(f);
    if let Err(p) = r {
        let msg = p.downcast_ref::<&str>().map(|s| s.to_string())
            .or_else(|| p.downcast_ref::<String>().cloned()).unwrap_or_default();
        println!("{{\"id\":{},\"f\":\"*\",\"panic\":{}}}", id, js(&msg));
    }
}
'''


def rust_str(s):
    out = ['"']
    for ch in s:
        o = ord(ch)
        if ch in '"\\':
            out.append("\\" + ch)
        elif 0x20 <= o < 0x7f:
            out.append(ch)
        else:
            out.append("\\u{%x}" % o)
    out.append('"')
    return "".join(out)


def ident(name):
    return name.strip().replace("-", "_")


def key_path_tokens(ns, path):
    parts = ([ns] if ns is not None else []) + list(path)
    return ".".join(ident(p) for p in parts)


def count_literal(ty, n):
    if ty == "plural":
        ty = "u64"
    if ty.startswith("f"):
        if n != n:
            return "%s::NAN" % ty
        if n in (float("inf"), float("-inf")):
            return ("%s::INFINITY" if n > 0 else "%s::NEG_INFINITY") % ty
        return "%s%s" % (repr(float(n)), ty) if "e" not in repr(float(n)) else "(%s as %s)" % (repr(float(n)), ty)
    lit = "%d%s" % (n, ty)
    return "(%s)" % lit if n < 0 else lit


def args_tokens(args, cvals, comps, flavour):
    """flavour: "string" (values, DisplayComponent) or "view" (closures for counts, view components)."""
    toks = []
    for name in sorted(args):
        toks.append("%s = %s" % (ident(name), rust_str(args[name])))
    for name in sorted(cvals):
        ty, n = cvals[name]
        lit = count_literal(ty, n)
        toks.append("%s = %s" % (ident(name), lit if flavour == "string" else "move || %s" % lit))
    for c in sorted(comps):
        toks.append("<%s> = %s(%s)" % (ident(c), "dc" if flavour == "string" else "vc", rust_str(c)))
    return ", ".join(toks)


def shorthand_tokens(args, cvals, comps, flavour):
    """the `t!(i18n, key, name, <comp>)` argument syntax: (let-bindings, bare tokens)."""
    lets, toks = [], []
    for name in sorted(args):
        lets.append("let %s = %s;" % (ident(name), rust_str(args[name])))
        toks.append(ident(name))
    for name in sorted(cvals):
        ty, n = cvals[name]
        lit = count_literal(ty, n)
        lets.append("let %s = %s;" % (ident(name), lit if flavour == "string" else "move || %s" % lit))
        toks.append(ident(name))
    for c in sorted(comps):
        lets.append("let %s = %s(%s);" % (ident(c), "dc" if flavour == "string" else "vc", rust_str(c)))
        toks.append("<%s>" % ident(c))
    return " ".join(lets), ", ".join(toks)


def direct_comp_tokens(args, cvals, comps):
    """(`<c> = <span attr:data-c="c" />` form, the equivalent closure form) for the view flavour."""
    base = []
    for name in sorted(args):
        base.append("%s = %s" % (ident(name), rust_str(args[name])))
    for name in sorted(cvals):
        ty, n = cvals[name]
        base.append("%s = move || %s" % (ident(name), count_literal(ty, n)))
    direct = base + ['<%s> = <span attr:data-c=%s />' % (ident(c), rust_str(c)) for c in sorted(comps)]
    closure = base + ['<%s> = move |ch: leptos::children::ChildrenFn| view! { <span attr:data-c=%s>{move || ch()}</span> }' % (ident(c), rust_str(c)) for c in sorted(comps)]
    return ", ".join(direct), ", ".join(closure)


class ProbeCrate:
    def __init__(self, name, project, fmt="json", features=None):
        self.name = name
        self.project = project
        self.fmt = fmt
        self.features = features
        self.obs = []          # (id, rust body)
        self.expect = {}       # id -> arbitrary expectation record (kept in Python)
        self.next_id = 0
        self.extra_items = ""
        self.extra_deps = ""        # lines appended to [dependencies]
        self.main_prelude = ""      # statements at the start of main()

    def add(self, body, expect):
        i = self.next_id
        self.next_id += 1
        self.obs.append((i, body))
        self.expect[i] = expect
        return i

    def main_rs(self):
        parts = [("#![allow(unused, non_snake_case, non_camel_case_types)]" if getattr(self, "warn_deprecated", False) else "#![allow(warnings)]"), "#![recursion_limit = \"512\"]", "mod support;", "use support::*;",
                 "use leptos::prelude::*;", "leptos_i18n::load_locales!();", "use i18n::*;", self.extra_items]
        for i, body in self.obs:
            parts.append("fn obs_%d() {\n%s\n}" % (i, body))
        parts.append("fn main() {\n    std::panic::set_hook(Box::new(|_| {}));\n" + self.main_prelude)
        for i, _ in self.obs:
            parts.append("    guard(%d, obs_%d);" % (i, i))
        parts.append("    println!(\"{{\\\"done\\\":true}}\");\n}")
        return "\n".join(parts) + "\n"

    def cargo_toml(self):
        cfg = self.project["cfg"]
        fmt_feature = {"json": "json_files", "json5": "json5_files", "yaml": "yaml_files"}[self.fmt]
        feats = self.features or ["cookie", "icu_compiled_data", "interpolate_display", "plurals", "format_datetime",
                                  "format_nums", "format_list", "format_currency", "ssr"]
        feats = feats + [fmt_feature]
        meta = gen.config_toml(cfg).split("[package.metadata.leptos-i18n]", 1)[1]
        return """[package]
name = "%s"
version = "0.0.0"
edition = "2021"
publish = false

[dependencies]
leptos = { version = "0.7.7", default-features = false, features = ["ssr"] }
leptos_i18n = { path = "%s/leptos_i18n", default-features = false, features = [%s] }
any_spawner = "0.2"
futures = { version = "0.3", features = ["executor"] }
serde_json = "1"
codee = "0.3"
writeable = "0.5"
icu_locid_transform = { version = "1.5", features = ["compiled_data"] }
%s
[package.metadata.leptos-i18n]%s
""" % (self.name, REPO, ", ".join(json.dumps(f) for f in feats), self.extra_deps, meta)


def write_workspace(tag, crates, seed=0, surface_kw=None):
    from .common import rng_for
    root = os.path.join(E2E_ROOT, tag)
    if os.path.exists(root):
        shutil.rmtree(root)
    os.makedirs(root)
    members = []
    for c in crates:
        d = os.path.join(root, c.name)
        rng = rng_for(seed, tag, c.name, "surface")
        gen.write_project(c.project, d, fmt=c.fmt, rng=rng, surface=gen.Surface(rng, **(surface_kw or {})))
        with open(os.path.join(d, "Cargo.toml"), "w") as f:
            f.write(c.cargo_toml())
        os.makedirs(os.path.join(d, "src"), exist_ok=True)
        with open(os.path.join(d, "src", "main.rs"), "w") as f:
            f.write(c.main_rs())
        with open(os.path.join(d, "src", "support.rs"), "w") as f:
            f.write(SUPPORT_RS)
        members.append(c.name)
    with open(os.path.join(root, "Cargo.toml"), "w") as f:
        f.write("[workspace]\nresolver = \"2\"\nmembers = [%s]\n\n[profile.dev]\nopt-level = 0\ndebug = 0\nincremental = false\n"
                % ", ".join(json.dumps(m) for m in members))
    os.makedirs(os.path.join(root, ".cargo"), exist_ok=True)
    with open(os.path.join(root, ".cargo", "config.toml"), "w") as f:
        f.write("[net]\noffline = true\n")
    shutil.copy(os.path.join(REPO, "Cargo.lock"), os.path.join(root, "Cargo.lock"))
    return root


def build_workspace(root, crates, timeout=3600, keep_going=True):
    """Builds all probe crates. Returns {crate name: (ok, compiler messages)}."""
    t0 = time.time()
    status = {c.name: {"ok": False, "messages": [], "warnings": []} for c in crates}
    stdout, stderr, rcs = [], [], []
    # one cargo invocation per (file format, feature set): cargo unifies features over the packages of
    # one invocation, and the file-format features are mutually exclusive
    groups = {}
    for c in crates:
        groups.setdefault((c.fmt, tuple(c.features or ())), []).append(c)
    for key, group in groups.items():
        cmd = ["cargo", "build", "--offline", "--message-format=json"]
        for c in group:
            cmd += ["-p", c.name]
        if keep_going:
            cmd.append("--keep-going")
        p = subprocess.run(cmd, cwd=root, env=cargo_env(), stdout=subprocess.PIPE, stderr=subprocess.PIPE,
                           text=True, timeout=timeout)
        stdout.append(p.stdout)
        stderr.append(p.stderr)
        rcs.append(p.returncode)

    class P:
        pass
    p = P()
    p.stdout = "\n".join(stdout)
    p.stderr = "\n".join(stderr)
    p.returncode = max(rcs) if rcs else 0
    for line in p.stdout.split("\n"):
        try:
            m = json.loads(line)
        except ValueError:
            continue
        if m.get("reason") == "compiler-message":
            name = m.get("target", {}).get("name")
            if name in status:
                msg = m["message"]
                if msg.get("level") == "error":
                    status[name]["messages"].append(msg.get("rendered") or msg.get("message"))
                elif msg.get("level") == "warning":
                    status[name]["warnings"].append(msg.get("message"))
        elif m.get("reason") == "compiler-artifact":
            name = m.get("target", {}).get("name")
            if name in status and m.get("executable"):
                status[name]["ok"] = True
                status[name]["exe"] = m["executable"]
    if p.returncode != 0 and not any(s["messages"] for s in status.values()) and not all(s["ok"] for s in status.values()):
        raise Inconclusive("cargo build of probe workspace failed without a compiler message:\n" + p.stderr[-3000:])
    return status, time.time() - t0, p.stderr


def run_crate(exe, timeout=600):
    p = subprocess.run([exe], stdout=subprocess.PIPE, stderr=subprocess.PIPE, timeout=timeout)
    obs = {}
    done = False
    for line in p.stdout.decode("utf-8", "replace").split("\n"):
        try:
            d = json.loads(line)
        except ValueError:
            continue
        if d.get("done"):
            done = True
            continue
        obs.setdefault(d["id"], {})[d["f"]] = d
    return obs, done, p.returncode, p.stderr.decode("utf-8", "replace")[-2000:]


_COMMENT = re.compile(r"<!--.*?-->", re.S)


def normalise_html(s):
    s = _COMMENT.sub("", s)
    s = s.replace("<!>", "")
    return html.unescape(s)
