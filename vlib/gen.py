"""Abstract translation projects, their surface rendering (JSON / JSON5 / YAML) and random
generation. The abstract project is what the reference model (model.py) interprets; the files
written here are what the real code reads.

AST (plain dicts so that a case can be dumped into a replay directory):
  node   := {"k":"null"} | {"k":"lit","ty":"str|int|float|bool","v":..} | {"k":"tmpl","segs":[seg]}
          | {"k":"range","ty":T|None,"branches":[{"specs":[spec]|None,"fb":"_"|".."|"omit"|None,"segs":[seg]}],"style":..}
          | {"k":"plural","rule":"cardinal|ordinal","forms":{form:[seg]}} | {"k":"sub","tree":[[key,node]]}
  seg    := {"s":"text","v":str} | {"s":"var","name":n,"fmt":None|{"name":..,"args":[[k,v]]}}
          | {"s":"comp","name":n,"inner":[seg]} | {"s":"fk","ns":ns|None,"path":[k..],"args":[[name,arg]]|None}
  arg    := {"a":"str","segs":[seg]} | {"a":"int","v":n} | {"a":"float","v":x} | {"a":"bool","v":b}
  spec   := {"r":"exact","v":n} | {"r":"bounds","start":a|None,"end":b|None,"incl":bool}
"""
import json
import zlib
import os
import random

FORMS = ["zero", "one", "two", "few", "many", "other"]
RANGE_TYPES = ["i8", "i16", "i32", "i64", "u8", "u16", "u32", "u64", "f32", "f64"]

KEY_POOL = ["alpha", "beta", "gamma", "delta", "title", "greeting", "hello_world", "msg", "label", "x1",
            "item-count", "Camel", "snake_case_key", "k", "zeta9", "body", "footer", "nav", "home", "about",
            "click", "user", "name_tag", "welcome", "bye", "lorem", "ipsum", "dolor", "sit", "amet",
            "é_key", "ключ", "many_things", "other_stuff", "one_more", "some_one_else"]
# the last names end in plural suffix words but are never paired so that they stay ordinary keys? No:
# `many_things`/`other_stuff` do not END in a suffix; `one_more` neither; `some_one_else` neither.
VAR_POOL = ["name", "x", "y", "value", "n", "who", "what", "amount", "a_b", "user-name", "v2", "total"]
COMP_POOL = ["b", "i", "a", "span", "strong", "em", "h1", "p", "u", "my-comp", "c1"]
NS_POOL = ["common", "home", "admin", "ns1", "second-ns", "errors"]
LOCALE_POOL = ["en", "fr", "de", "it", "es", "pt-BR", "en-US", "en-GB", "fr-CA", "ja", "ru", "ar", "pl", "cy", "he",
               "zh-Hans", "zh-Hant-TW", "sv", "nl"]

TEXT_ATOMS = [
    "Hello", "world", " ", "  ", "Bonjour le monde", "é", "ß", "Ünïcödé", "日本語", "中文", "שלום", "مرحبا",
    "é", "\U0001F600", "\U0001F468‍\U0001F469‍\U0001F467", " ", "​", "‍", " ",
    "\"", "'", "\\", "\\n", "&", "&amp;", "a{b", "a}b", "a$b", "(", ")", ",", ":", ";", "|", "/", "\n", "\t",
    "100%", "#", "=", "-", "_", "..", "!", "?", "@", "~", "`", "^", "*", "+", "[", "]", "0", "42", "null", "true",
    "t(", "$", "a $ t ( b", "x, y", "1..5", "</", "/>"[:1],
]
SAFE_TEXT_ATOMS = [a for a in TEXT_ATOMS if "<" not in a and ">" not in a]

SPACES_IN = ["", " ", "  ", "\t", " \t "]


def pick(rng, seq):
    return seq[rng.randrange(len(seq))]


def gen_text(rng, max_atoms=4, alphabet=None):
    """A literal text segment that is well-formed by DESIGN section 1: no `<`, `>`, `{{`, `}}`, `$t(`,
    and no brace at either end (a brace glued to a `{{ var }}` delimiter has no documented reading)."""
    alphabet = alphabet or SAFE_TEXT_ATOMS
    while True:
        s = "".join(pick(rng, alphabet) for _ in range(rng.randint(1, max_atoms)))
        if "{{" in s or "}}" in s or "$t(" in s or "<" in s or ">" in s:
            continue
        if s[0] in "{}" or s[-1] in "{}" or s[-1] == "$":
            continue
        return s


# ----------------------------------------------------------------------------------------------
# surface rendering of templates
# ----------------------------------------------------------------------------------------------

class Surface:
    """Surface choices, drawn independently of the abstract content."""

    def __init__(self, rng, plain=False, closing_ws=True):
        self.rng = rng
        self.plain = plain            # canonical spelling only
        self.closing_ws = closing_ws  # allow whitespace before `>` in closing tags

    def ws(self):
        return "" if self.plain else pick(self.rng, SPACES_IN)

    def var(self, seg):
        inner = self.ws() + seg["name"] + self.ws()
        fmt = seg.get("fmt")
        if fmt:
            inner += "," + self.ws() + self.formatter(fmt)
        return "{{" + inner + "}}"

    def formatter(self, fmt):
        s = fmt["name"]
        args = fmt.get("args")
        if args is None:
            return s + self.ws()
        parts = []
        for k, v in args:
            parts.append(self.ws() + k + self.ws() + ":" + self.ws() + v + self.ws())
        return s + self.ws() + "(" + ";".join(parts) + ")" + self.ws()

    def comp(self, seg):
        n = seg["name"]
        o = "<" + self.ws() + n + self.ws() + ">"
        c = "<" + self.ws() + "/" + self.ws() + n + (self.ws() if self.closing_ws else "") + ">"
        return o + self.segs(seg["inner"]) + c

    def fk(self, seg):
        path = ".".join(seg["path"])
        if seg.get("ns"):
            path = seg["ns"] + ":" + path
        s = "$t(" + self.ws() + path + self.ws()
        if seg.get("args") is not None:
            obj = {}
            for name, arg in seg["args"]:
                obj[self.ws() + name + self.ws() if not self.plain else name] = self.arg(arg)
            s += "," + self.ws() + json.dumps(obj, ensure_ascii=self.rng.random() < 0.3) + self.ws()
        return s + ")"

    def arg(self, arg):
        if arg["a"] == "str":
            return self.segs(arg["segs"])
        return arg["v"]

    def segs(self, segs):
        out = []
        for seg in segs:
            k = seg["s"]
            if k == "text":
                out.append(seg["v"])
            elif k == "var":
                out.append(self.var(seg))
            elif k == "comp":
                out.append(self.comp(seg))
            elif k == "fk":
                out.append(self.fk(seg))
        return "".join(out)


def spec_to_str(spec, surface, ty):
    def num(v):
        if ty in ("f32", "f64"):
            return repr(float(v)) if not float(v).is_integer() or surface.rng.random() < 0.5 else str(int(v))
        return str(v)
    if spec["r"] == "exact":
        return num(spec["v"])
    s = "" if spec["start"] is None else num(spec["start"])
    s += surface.ws() + ".."
    if spec["end"] is not None:
        s += ("=" if spec["incl"] else "") + surface.ws() + num(spec["end"])
    return s


def lower_range(node, surface):
    """range node -> plain data (list)."""
    rng = surface.rng
    ty = node["ty"]
    out = []
    if ty is not None:
        out.append(ty)
    elif not surface.plain and rng.random() < 0.15:
        out.append("i32")
    for br in node["branches"]:
        value = surface.segs(br["segs"])
        style = br.get("style") or ("seq" if surface.plain else pick(rng, ["seq", "seq", "map", "pipe", "list"]))
        counts = []
        if br["specs"] is None:
            fb = br.get("fb") or "_"
            if fb == "omit":
                counts = None
            else:
                counts = [fb]
        else:
            for sp in br["specs"]:
                if sp["r"] == "exact" and style != "pipe" and (surface.plain or rng.random() < 0.6) and \
                        not (isinstance(sp["v"], float) and not float(sp["v"]).is_integer() and False):
                    v = sp["v"]
                    if isinstance(v, float) and v.is_integer() and abs(v) < 2**53 and (sp.get("form") == "int" or (not surface.plain and rng.random() < 0.35)):
                        v = int(v)              # an integer literal as the exact count of a float range
                    counts.append(v)            # a bare number
                else:
                    counts.append(spec_to_str(sp, surface, ty or "i32"))
            if style == "pipe":
                counts = [(surface.ws() + "|" + surface.ws()).join(str(c) for c in counts)]
            elif len(counts) >= 3 and (br.get("mixed") or (not surface.plain and rng.random() < 0.4)):
                # a list in which a non-first element is itself a `|` string: ["v", c1, "c2 | c3", c4]
                i = rng.randint(1, len(counts) - 2)
                counts = counts[:i] + [(surface.ws() + "|" + surface.ws()).join(str(c) for c in counts[i:i + 2])] + counts[i + 2:]
        if style == "map":
            d = {}
            if counts is not None:
                c = counts[0] if len(counts) == 1 and rng.random() < 0.5 else counts
                if rng.random() < 0.5:
                    d["count"] = c
                    d["value"] = value
                else:
                    d["value"] = value
                    d["count"] = c
            else:
                d["value"] = value
            out.append(d)
        elif style == "list" and counts:
            out.append({"value": value, "count": counts})
        else:
            out.append([value] + (counts or []))
    return out


def lower_tree(tree, surface):
    """abstract tree -> plain ordered dict (plural groups expanded to suffixed keys)."""
    out = {}
    for key, node in tree:
        k = node["k"]
        if k == "null":
            out[key] = None
        elif k == "lit":
            out[key] = node["v"]
        elif k == "tmpl":
            out[key] = surface.segs(node["segs"])
        elif k == "range":
            out[key] = lower_range(node, surface)
        elif k == "plural":
            base = key + ("_ordinal" if node["rule"] == "ordinal" else "")
            for form, segs in node["forms"].items():
                out[base + "_" + form] = surface.segs(segs)
        elif k == "sub":
            out[key] = lower_tree(node["tree"], surface)
        elif k == "raw":        # escape hatch for adversarial workloads: plain data given directly
            out[key] = node["v"]
    return out


# ----------------------------------------------------------------------------------------------
# serializers
# ----------------------------------------------------------------------------------------------

def shuffle_plain(data, rng):
    """Permutes the key order of every object (sequences keep their order: it is semantic)."""
    if isinstance(data, dict):
        items = list(data.items())
        rng.shuffle(items)
        return {k: shuffle_plain(v, rng) for k, v in items}
    if isinstance(data, list):
        return [shuffle_plain(v, rng) for v in data]
    return data


def to_json(data, rng=None):
    ensure_ascii = bool(rng and rng.random() < 0.4)
    indent = None if (rng and rng.random() < 0.3) else 2
    return json.dumps(data, ensure_ascii=ensure_ascii, indent=indent)


def _json5_str(s, rng):
    q = "'" if rng.random() < 0.4 else '"'
    out = []
    for ch in s:
        if ch == q or ch == "\\":
            out.append("\\" + ch)
        elif ch == "\n":
            out.append("\\n")
        elif ch == "\r":
            out.append("\\r")
        elif ch == "\t":
            out.append("\\t")
        elif ch in "  ":
            out.append("\\u%04x" % ord(ch))
        elif ord(ch) < 0x20:
            out.append("\\u%04x" % ord(ch))
        else:
            out.append(ch)
    return q + "".join(out) + q


def _is_ident(s):
    return s.isascii() and s.replace("_", "a").isalnum() and not s[0].isdigit() and s not in ("null", "true", "false", "Infinity", "NaN")


def to_json5(data, rng, depth=0):
    pad = "  " * (depth + 1)
    if isinstance(data, dict):
        if not data:
            return "{}"
        parts = []
        for k, v in data.items():
            key = k if (_is_ident(k) and rng.random() < 0.6) else _json5_str(k, rng)
            parts.append(pad + key + ": " + to_json5(v, rng, depth + 1))
        lines = []
        for i, part in enumerate(parts):
            last = i == len(parts) - 1
            if rng.random() < 0.08:
                lines.append(pad + "// a comment")
            lines.append(part + ("," if (not last or rng.random() < 0.5) else ""))
        return "{\n" + "\n".join(lines) + "\n" + "  " * depth + "}"
    if isinstance(data, list):
        inner = ", ".join(to_json5(v, rng, depth + 1) for v in data)
        if data and rng.random() < 0.3:
            inner += ","
        return "[" + inner + "]"
    if data is None:
        return "null"
    if isinstance(data, bool):
        return "true" if data else "false"
    if isinstance(data, int):
        if data >= 0 and rng.random() < 0.15:
            return "+" + str(data)
        return str(data)
    if isinstance(data, float):
        return repr(data)
    return _json5_str(data, rng)


def _yaml_str(s):
    out = []
    for ch in s:
        o = ord(ch)
        if ch == '"' or ch == "\\":
            out.append("\\" + ch)
        elif ch == "\n":
            out.append("\\n")
        elif ch == "\r":
            out.append("\\r")
        elif ch == "\t":
            out.append("\\t")
        elif o < 0x20 or o == 0x7f or 0x80 <= o <= 0x9f or o in (0x2028, 0x2029, 0xfeff):
            out.append("\\u%04x" % o if o <= 0xffff else "\\U%08x" % o)
        else:
            out.append(ch)
    return '"' + "".join(out) + '"'


def _yaml_scalar(v, rng):
    if v is None:
        return pick(rng, ["null", "~"])
    if isinstance(v, bool):
        return "true" if v else "false"
    if isinstance(v, int):
        return str(v)
    if isinstance(v, float):
        r = repr(v)
        return r
    return _yaml_str(v)


def to_yaml(data, rng, depth=0):
    pad = "  " * depth
    if isinstance(data, dict):
        if not data:
            return "{}"
        lines = []
        for k, v in data.items():
            key = k if (_is_ident(k) and rng.random() < 0.5 and k not in ("y", "n", "yes", "no", "on", "off")) else _yaml_str(k)
            if isinstance(v, dict) and v:
                lines.append(pad + key + ":\n" + to_yaml(v, rng, depth + 1))
            elif isinstance(v, list) and v and rng.random() < 0.5:
                lines.append(pad + key + ":\n" + to_yaml(v, rng, depth + 1))
            else:
                lines.append(pad + key + ": " + _yaml_flow(v, rng))
        return "\n".join(lines)
    if isinstance(data, list):
        lines = []
        for v in data:
            lines.append(pad + "- " + _yaml_flow(v, rng))
        return "\n".join(lines)
    return pad + _yaml_scalar(data, rng)


def _yaml_flow(v, rng):
    if isinstance(v, dict):
        return "{" + ", ".join(_yaml_str(k) + ": " + _yaml_flow(x, rng) for k, x in v.items()) + "}"
    if isinstance(v, list):
        return "[" + ", ".join(_yaml_flow(x, rng) for x in v) + "]"
    return _yaml_scalar(v, rng)


EXT = {"json": "json", "json5": "json5", "yaml": "yaml"}


def serialize(data, fmt, rng):
    if fmt == "json":
        return to_json(data, rng)
    if fmt == "json5":
        return to_json5(data, rng)
    if fmt == "yaml":
        return to_yaml(data, rng) + "\n"
    raise ValueError(fmt)


# ----------------------------------------------------------------------------------------------
# project -> files
# ----------------------------------------------------------------------------------------------

def config_toml(cfg, rng=None, extra_before="", extra_after=""):
    lines = ["[package]", 'name = "probe"', 'version = "0.1.0"', 'edition = "2021"', "", extra_before,
             "[package.metadata.leptos-i18n]"]
    fields = []
    if cfg.get("default") is not None:
        fields.append('default = %s' % json.dumps(cfg["default"]))
    if cfg.get("locales") is not None:
        fields.append("locales = [%s]" % ", ".join(json.dumps(l) for l in cfg["locales"]))
    if cfg.get("namespaces") is not None:
        fields.append("namespaces = [%s]" % ", ".join(json.dumps(l) for l in cfg["namespaces"]))
    if cfg.get("locales_dir") is not None:
        fields.append('locales-dir = %s' % json.dumps(cfg["locales_dir"]))
    if cfg.get("translations_path") is not None:
        fields.append('translations-path = %s' % json.dumps(cfg["translations_path"]))
    if cfg.get("inherits"):
        fields.append("inherits = { %s }" % ", ".join("%s = %s" % (json.dumps(k) if not _is_ident(k.replace("-", "_")) else k, json.dumps(v))
                                                      for k, v in cfg["inherits"].items()))
    for k, v in (cfg.get("unknown_fields") or {}).items():
        fields.append("%s = %s" % (k, json.dumps(v)))
    if rng is not None:
        rng.shuffle(fields)
    lines += fields
    lines.append(extra_after)
    return "\n".join(lines) + "\n"


def effective_locales(cfg):
    """Config normalisation as documented: default first, then the others in listed order."""
    ls = list(cfg["locales"])
    d = cfg["default"]
    if d in ls:
        i = ls.index(d)
        ls[0], ls[i] = ls[i], ls[0]
    else:
        ls.append(d)
        ls[0], ls[-1] = ls[-1], ls[0]
    return ls


def write_project(project, root, fmt="json", rng=None, surface=None, shuffle=False, plain_cache=None):
    """Writes Cargo.toml and the locale files. Returns the plain data per (ns, locale) so that the
    same logical content can be re-serialized in another format / order."""
    rng = rng or random.Random(0)
    surface = surface or Surface(rng)
    os.makedirs(root, exist_ok=True)
    cfg = project["cfg"]
    with open(os.path.join(root, "Cargo.toml"), "w") as f:
        f.write(config_toml(cfg, extra_before=project.get("toml_before", ""), extra_after=project.get("toml_after", "")))
    ldir = os.path.join(root, cfg.get("locales_dir") or "locales")
    plains = {}
    for (ns, loc), tree in project["data"].items():
        if plain_cache is not None and (ns, loc) in plain_cache:
            plain = plain_cache[(ns, loc)]
        else:
            plain = lower_tree(tree, surface)
        if shuffle:
            plain = shuffle_plain(plain, rng)
        plains[(ns, loc)] = plain
        # a YAML file may carry either of the two documented extensions, file by file
        ext = EXT[fmt] if fmt != "yaml" else ("yml" if zlib.crc32(repr((ns, loc, len(project["data"]))).encode()) % 2 else "yaml")
        if ns is None:
            path = os.path.join(ldir, loc + "." + ext)
        else:
            path = os.path.join(ldir, loc, ns + "." + ext)
        os.makedirs(os.path.dirname(path), exist_ok=True)
        with open(path, "w", encoding="utf-8", newline="") as f:
            f.write(serialize(plain, fmt, rng))
    return plains


# ----------------------------------------------------------------------------------------------
# random generation
# ----------------------------------------------------------------------------------------------

class GenCfg:
    def __init__(self, **kw):
        self.n_locales = (2, 4)
        self.n_keys = (4, 12)
        self.namespaces = 0.25
        self.p_sub = 0.15
        self.max_depth = 3
        self.p_var = 0.5
        self.p_comp = 0.4
        self.comp_depth = 3
        self.p_fk = 0.25
        self.p_range = 0.12
        self.p_plural = 0.12
        self.p_lit_other = 0.1      # non-string literal at top level
        self.p_null = 0.1
        self.p_absent = 0.1
        self.p_inherits = 0.4
        self.p_fmt = 0.0
        self.max_segs = 6
        self.mix_kinds = 0.3       # a non-default locale picks its own kind for a key
        self.closing_ws = True
        self.locale_pool = LOCALE_POOL
        self.fk_args = True
        self.p_surplus = 0.1
        self.text_alphabet = None
        self.p_empty_comp = 0.1
        self.var_pool = VAR_POOL
        self.comp_pool = COMP_POOL
        self.key_pool = KEY_POOL
        self.__dict__.update(kw)


def gen_segs(rng, cfg, depth=0, allow_fk=True, fk_targets=None, vars_pool=None, in_comp=False, nmax=None):
    """Random template. FK segments only at the top level of a template (the parser splits on `$t(` before
    it looks for tags, so a reference inside a tag body has no documented reading)."""
    segs = []
    n = rng.randint(1, nmax or cfg.max_segs)
    vars_pool = vars_pool or cfg.var_pool
    for _ in range(n):
        r = rng.random()
        if r < 0.45 or (segs and segs[-1]["s"] != "text" and r < 0.55):
            if segs and segs[-1]["s"] == "text":
                continue
            segs.append({"s": "text", "v": gen_text(rng, alphabet=cfg.text_alphabet)})
        elif r < 0.45 + cfg.p_var * 0.5:
            seg = {"s": "var", "name": pick(rng, vars_pool), "fmt": None}
            segs.append(seg)
        elif r < 0.45 + cfg.p_var * 0.5 + cfg.p_comp * 0.4 and depth < cfg.comp_depth:
            segs.append({"s": "comp", "name": pick(rng, cfg.comp_pool),
                         "inner": gen_segs(rng, cfg, depth + 1, False, None, vars_pool, True, nmax=3) if rng.random() >= cfg.p_empty_comp else []})
        elif allow_fk and fk_targets and not in_comp and rng.random() < cfg.p_fk * 2:
            segs.append(pick(rng, fk_targets)(rng))
        else:
            if not (segs and segs[-1]["s"] == "text"):
                segs.append({"s": "text", "v": gen_text(rng, alphabet=cfg.text_alphabet)})
    if not segs:
        segs.append({"s": "text", "v": gen_text(rng, alphabet=cfg.text_alphabet)})
    return segs


def gen_int_specs(rng, ty, n=None):
    from .rustfmt import INT_BOUNDS
    lo, hi = INT_BOUNDS[ty]
    specs = []
    for _ in range(n or rng.randint(1, 3)):
        r = rng.random()
        c = pick(rng, [lo, hi, 0, 1, 2, 5, 10, 100, rng.randint(max(lo, -300), min(hi, 300)), rng.randint(lo, hi)])
        c = max(lo, min(hi, c))
        if r < 0.4:
            specs.append({"r": "exact", "v": c})
        else:
            width = pick(rng, [0, 1, 2, 5, 50, 1000])
            a = c
            b = min(hi, a + width)
            kind = rng.random()
            if kind < 0.35:
                # a..b (exclusive): needs b > a and b > lo
                if b <= a:
                    if a == hi:
                        specs.append({"r": "bounds", "start": a, "end": None, "incl": False})
                        continue
                    b = a + 1
                specs.append({"r": "bounds", "start": a, "end": b, "incl": False})
            elif kind < 0.65:
                specs.append({"r": "bounds", "start": a, "end": b, "incl": True})
            elif kind < 0.8:
                specs.append({"r": "bounds", "start": a, "end": None, "incl": False})
            elif kind < 0.9:
                if a > lo:
                    specs.append({"r": "bounds", "start": None, "end": a, "incl": False})
                else:
                    specs.append({"r": "bounds", "start": None, "end": a, "incl": True})
            else:
                specs.append({"r": "bounds", "start": None, "end": a, "incl": True})
    return specs


def gen_float_specs(rng, ty, n=None):
    specs = []
    vals = [0.0, 1.0, -1.0, 0.5, 2.5, 10.0, 100.0, -3.25, 1e6, 0.1, 1.5, 3.0]
    for _ in range(n or rng.randint(1, 3)):
        a = pick(rng, vals)
        r = rng.random()
        if r < 0.35:
            specs.append({"r": "exact", "v": a})
        else:
            b = a + pick(rng, [0.5, 1.0, 2.0, 10.0])
            kind = rng.random()
            if kind < 0.4:
                specs.append({"r": "bounds", "start": a, "end": b, "incl": False})
            elif kind < 0.7:
                specs.append({"r": "bounds", "start": a, "end": b, "incl": True})
            elif kind < 0.85:
                specs.append({"r": "bounds", "start": a, "end": None, "incl": False})
            else:
                specs.append({"r": "bounds", "start": None, "end": a, "incl": rng.random() < 0.5})
    return specs


def gen_range(rng, cfg, ty="random", seg_gen=None):
    if ty == "random":
        ty = pick(rng, [None, None, "i32", "u8", "i8", "u32", "i64", "u64", "i16", "u16", "f32", "f64"])
    rty = ty or "i32"
    branches = []
    seg_gen = seg_gen or (lambda: gen_segs(rng, cfg, allow_fk=False, vars_pool=["count", "count"] + cfg.var_pool[:4], nmax=3))
    for _ in range(rng.randint(1, 4)):
        specs = gen_float_specs(rng, rty) if rty.startswith("f") else gen_int_specs(rng, rty)
        branches.append({"specs": specs, "segs": seg_gen()})
    branches.append({"specs": None, "fb": pick(rng, ["_", "..", "omit"]), "segs": seg_gen()})
    return {"k": "range", "ty": ty, "branches": branches}


def gen_plural(rng, cfg, seg_gen=None):
    rule = "ordinal" if rng.random() < 0.3 else "cardinal"
    forms = {}
    seg_gen = seg_gen or (lambda: gen_segs(rng, cfg, allow_fk=False, vars_pool=["count", "count"] + cfg.var_pool[:4], nmax=3))
    for f in FORMS[:-1]:
        if rng.random() < 0.4:
            forms[f] = seg_gen()
    if not forms:
        forms["one"] = seg_gen()
    forms["other"] = seg_gen()
    return {"k": "plural", "rule": rule, "forms": forms}


def plural_suffix_clash(name):
    base, _, suf = name.rpartition("_")
    return base != "" and suf in FORMS


# ordinary keys whose names end in a plural suffix word but have no sibling form: they stay ordinary keys
LONE_SUFFIX_KEYS = ["the_other", "any_one", "very_few", "so_many", "number_two", "ground_zero", "rank_ordinal_other", "place_ordinal_one",
                    # valid identifiers that a YAML reader resolves to a boolean / null when they stand unquoted
                    "True", "FALSE", "Null", "NULL", "null"]


def gen_key_names(rng, n, pool=None):
    pool_is_default = pool is None or pool is KEY_POOL or list(pool) == KEY_POOL
    pool = list(pool or KEY_POOL)
    rng.shuffle(pool)
    names = []
    idents = set()
    for k in pool:
        ident = k.replace("-", "_")
        if ident in idents or plural_suffix_clash(k):
            continue
        idents.add(ident)
        names.append(k)
        if len(names) == n:
            break
    if pool_is_default and names and rng.random() < 0.3:
        names[rng.randrange(len(names))] = pick(rng, LONE_SUFFIX_KEYS)
    return names


def gen_value(rng, cfg, kinds=None):
    r = rng.random()
    if r < cfg.p_range:
        return gen_range(rng, cfg)
    r -= cfg.p_range
    if r < cfg.p_plural:
        return gen_plural(rng, cfg)
    r -= cfg.p_plural
    if r < cfg.p_lit_other:
        ty = pick(rng, ["int", "int", "float", "bool"])
        if ty == "int":
            v = pick(rng, [0, 1, -1, 42, -7, 2**31, 2**63 - 1, -2**63, 2**64 - 1, 1000000])
        elif ty == "float":
            v = pick(rng, [0.5, 59.89, -2.25, 1e3 + 0.5, 1.0e-3, 3.0, 123456.789, 6.02e23, 1.5e-7, -0.0, 1e16])
        else:
            v = rng.random() < 0.5
        return {"k": "lit", "ty": ty, "v": v}
    segs = gen_segs(rng, cfg, allow_fk=False)
    if len(segs) == 1 and segs[0]["s"] == "text":
        return {"k": "lit", "ty": "str", "v": segs[0]["v"]}
    return {"k": "tmpl", "segs": segs}


def gen_tree(rng, cfg, depth=0, nkeys=None, names_pool=None):
    n = nkeys or rng.randint(*cfg.n_keys)
    names = gen_key_names(rng, n, names_pool)
    tree = []
    for name in names:
        if depth < cfg.max_depth and rng.random() < cfg.p_sub:
            tree.append([name, {"k": "sub", "tree": gen_tree(rng, cfg, depth + 1, nkeys=rng.randint(1, 4))}])
        else:
            tree.append([name, gen_value(rng, cfg)])
    return tree


def vary_tree(rng, cfg, tree, inheriting):
    """A non-default locale's version of the default tree: same key structure, own values, with
    random presence patterns."""
    out = []
    for key, node in tree:
        r = rng.random()
        if r < cfg.p_absent:
            continue
        if r < cfg.p_absent + cfg.p_null:
            out.append([key, {"k": "null"}])
            continue
        if node["k"] == "sub":
            out.append([key, {"k": "sub", "tree": vary_tree(rng, cfg, node["tree"], inheriting)}])
        elif rng.random() < cfg.mix_kinds:
            v = gen_value(rng, cfg)
            out.append([key, v])
        else:
            out.append([key, regen_like(rng, cfg, node)])
    if rng.random() < cfg.p_surplus:
        extra = gen_key_names(rng, 1, ["surplus_a", "extra_b", "only_here", "zz_top"])
        out.append([extra[0], gen_value(rng, cfg)])
    rng.shuffle(out)
    return out


def regen_like(rng, cfg, node):
    k = node["k"]
    if k == "range":
        return gen_range(rng, cfg, ty=node["ty"])
    if k == "plural":
        p = gen_plural(rng, cfg)
        p["rule"] = node["rule"]
        return p
    if k == "lit" and node["ty"] != "str":
        return dict(node)
    return gen_value(rng, GenCfg(**{**cfg.__dict__, "p_range": 0, "p_plural": 0, "p_lit_other": 0}))


def gen_inherits(rng, locales, default, p=0.5, allow_cycles=True):
    inh = {}
    others = [l for l in locales if l != default]
    for l in others:
        if rng.random() < p:
            cands = [x for x in locales if x != l] if allow_cycles else [x for x in locales if x != l]
            inh[l] = pick(rng, cands)
    return inh


def gen_project(rng, cfg=None):
    cfg = cfg or GenCfg()
    nloc = rng.randint(*cfg.n_locales)
    pool = list(cfg.locale_pool)
    rng.shuffle(pool)
    locales = pool[:nloc]
    default = locales[0]
    listed = list(locales)
    rng.shuffle(listed)
    if rng.random() < 0.2:
        listed.remove(default)          # default need not be listed
    inherits = gen_inherits(rng, locales, default) if rng.random() < cfg.p_inherits else {}
    if default not in listed:
        # (documented) the default counts as a configured locale even when unlisted
        pass
    namespaces = None
    if rng.random() < cfg.namespaces:
        nsp = list(NS_POOL)
        rng.shuffle(nsp)
        namespaces = nsp[:rng.randint(1, 3)]
    project = {"cfg": {"default": default, "locales": listed, "namespaces": namespaces, "inherits": inherits,
                       "locales_dir": None if rng.random() < 0.8 else pick(rng, ["i18n", "./translations", "a/b"])},
               "data": {}}
    for ns in (namespaces or [None]):
        base = gen_tree(rng, cfg)
        project["data"][(ns, default)] = base
        for l in locales[1:]:
            project["data"][(ns, l)] = vary_tree(rng, cfg, base, l in inherits)
    return project


def project_to_jsonable(project):
    return {"cfg": project["cfg"], "data": [[ns, loc, tree] for (ns, loc), tree in project["data"].items()]}


def project_from_jsonable(obj):
    return {"cfg": obj["cfg"], "data": {(ns, loc): tree for ns, loc, tree in obj["data"]}}
