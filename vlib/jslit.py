"""HTML <script> raw-text extraction and a strict JavaScript literal parser (arrays, objects,
strings with the full JS escape syntax, numbers, null/true/false)."""
import re


class JsError(Exception):
    pass


_END = re.compile(r"</script[\t\n\f\r />]", re.I)


def script_raw_texts(html):
    """Raw text of every <script> element, by the HTML tokenizer's rule for raw-text end tags."""
    out = []
    pos = 0
    low = html.lower()
    while True:
        i = low.find("<script", pos)
        if i < 0:
            return out
        j = html.find(">", i)
        if j < 0:
            raise JsError("unterminated <script start tag")
        m = _END.search(html, j + 1)
        if not m:
            raise JsError("script element never closed")
        out.append(html[j + 1:m.start()])
        pos = m.end()


class P:
    def __init__(self, s):
        self.s = s
        self.i = 0

    def ws(self):
        while self.i < len(self.s) and self.s[self.i] in " \t\n\r":
            self.i += 1

    def expect(self, ch):
        self.ws()
        if self.s[self.i:self.i + len(ch)] != ch:
            raise JsError("expected %r at %d, found %r" % (ch, self.i, self.s[self.i:self.i + 20]))
        self.i += len(ch)

    def value(self):
        self.ws()
        if self.i >= len(self.s):
            raise JsError("unexpected end")
        c = self.s[self.i]
        if c == "[":
            self.i += 1
            out = []
            self.ws()
            if self.s[self.i] == "]":
                self.i += 1
                return out
            while True:
                out.append(self.value())
                self.ws()
                if self.s[self.i] == ",":
                    self.i += 1
                    continue
                if self.s[self.i] == "]":
                    self.i += 1
                    return out
                raise JsError("expected , or ] at %d, found %r" % (self.i, self.s[self.i:self.i + 20]))
        if c == "{":
            self.i += 1
            out = {}
            self.ws()
            if self.s[self.i] == "}":
                self.i += 1
                return out
            while True:
                self.ws()
                if self.s[self.i] not in "\"'":
                    raise JsError("object key must be a string literal at %d" % self.i)
                k = self.string()
                self.expect(":")
                out[k] = self.value()
                self.ws()
                if self.s[self.i] == ",":
                    self.i += 1
                    continue
                if self.s[self.i] == "}":
                    self.i += 1
                    return out
                raise JsError("expected , or } at %d, found %r" % (self.i, self.s[self.i:self.i + 20]))
        if c in "\"'":
            return self.string()
        for lit, v in (("null", None), ("true", True), ("false", False)):
            if self.s.startswith(lit, self.i):
                self.i += len(lit)
                return v
        m = re.match(r"-?\d+(\.\d+)?([eE][+-]?\d+)?", self.s[self.i:])
        if m:
            self.i += m.end()
            return float(m.group(0)) if ("." in m.group(0) or "e" in m.group(0).lower()) else int(m.group(0))
        raise JsError("unexpected %r at %d" % (self.s[self.i:self.i + 20], self.i))

    def string(self):
        q = self.s[self.i]
        self.i += 1
        out = []
        while True:
            if self.i >= len(self.s):
                raise JsError("unterminated string literal")
            c = self.s[self.i]
            if c == q:
                self.i += 1
                return "".join(out)
            if c in "\n\r":
                raise JsError("raw line terminator inside a string literal at %d" % self.i)
            if c != "\\":
                out.append(c)
                self.i += 1
                continue
            e = self.s[self.i + 1] if self.i + 1 < len(self.s) else ""
            self.i += 2
            if e == "n":
                out.append("\n")
            elif e == "r":
                out.append("\r")
            elif e == "t":
                out.append("\t")
            elif e == "b":
                out.append("\b")
            elif e == "f":
                out.append("\f")
            elif e == "v":
                out.append("\v")
            elif e == "0" and not (self.i < len(self.s) and self.s[self.i].isdigit()):
                out.append("\0")
            elif e == "x":
                h = self.s[self.i:self.i + 2]
                if not re.fullmatch(r"[0-9a-fA-F]{2}", h):
                    raise JsError("bad \\x escape")
                out.append(chr(int(h, 16)))
                self.i += 2
            elif e == "u":
                if self.s[self.i:self.i + 1] == "{":
                    j = self.s.index("}", self.i)
                    out.append(chr(int(self.s[self.i + 1:j], 16)))
                    self.i = j + 1
                else:
                    h = self.s[self.i:self.i + 4]
                    if not re.fullmatch(r"[0-9a-fA-F]{4}", h):
                        raise JsError("bad \\u escape")
                    cp = int(h, 16)
                    self.i += 4
                    if 0xD800 <= cp < 0xDC00 and self.s[self.i:self.i + 2] == "\\u":
                        h2 = self.s[self.i + 2:self.i + 6]
                        if re.fullmatch(r"[0-9a-fA-F]{4}", h2) and 0xDC00 <= int(h2, 16) < 0xE000:
                            cp = 0x10000 + ((cp - 0xD800) << 10) + (int(h2, 16) - 0xDC00)
                            self.i += 6
                    out.append(chr(cp))
            elif e in "\n  ":
                pass            # line continuation
            elif e == "\r":
                if self.s[self.i:self.i + 1] == "\n":
                    self.i += 1
            elif e.isdigit():
                raise JsError("octal escape")
            else:
                out.append(e)   # identity escape (includes \" \' \\ \/ )


def parse_assignment(text, target="window.__LEPTOS_I18N_TRANSLATIONS"):
    p = P(text)
    p.expect(target)
    p.expect("=")
    v = p.value()
    p.ws()
    if p.s[p.i:p.i + 1] == ";":
        p.i += 1
    p.ws()
    if p.i != len(p.s):
        raise JsError("trailing content after the assignment: %r" % p.s[p.i:p.i + 40])
    return v
