"""Reference semantics of a translation project, computed from the abstract project only
(never from anything the code under test produced)."""
import math

from . import rustfmt
from .gen import FORMS, effective_locales


class ModelError(Exception):
    """The documented semantics make this project an error (class in .kind)."""

    def __init__(self, kind, detail=""):
        super().__init__("%s: %s" % (kind, detail))
        self.kind = kind
        self.detail = detail


# ----------------------------------------------------------------------------------------------
# trees, lookup, inheritance (C03)
# ----------------------------------------------------------------------------------------------

def tree_get(tree, key):
    for k, n in tree:
        if k == key:
            return n
    return None


def lookup(tree, path):
    """Node at `path` or None (absent). A `null` node is returned as such."""
    node = None
    cur = tree
    for i, key in enumerate(path):
        if cur is None:
            return None
        node = tree_get(cur, key)
        if node is None:
            return None
        if i + 1 < len(path):
            if node["k"] != "sub":
                return None if node["k"] != "null" else {"k": "null"}
            cur = node["tree"]
    return node


def defines(tree, path):
    n = lookup(tree, path)
    return n is not None and n["k"] != "null"


def effective_locale(project, ns, locale, path):
    """First locale along `locale -> inherits[locale] -> ...` that defines the key; default when the
    chain ends or loops."""
    cfg = project["cfg"]
    default = cfg["default"]
    inherits = cfg.get("inherits") or {}
    seen = set()
    cur = locale
    while True:
        tree = project["data"].get((ns, cur))
        if tree is not None and defines(tree, path):
            return cur
        if cur == default:
            raise ModelError("ExplicitDefaultInDefault", ".".join(path))
        seen.add(cur)
        nxt = inherits.get(cur, default)
        if nxt in seen:
            # a loop: the default locale is used
            tree = project["data"].get((ns, default))
            if tree is not None and defines(tree, path):
                return default
            raise ModelError("ExplicitDefaultInDefault", ".".join(path))
        cur = nxt


def leaf_paths(tree, prefix=()):
    """All value paths of a tree (plural groups count as one leaf under their base key)."""
    out = []
    for key, node in tree:
        if node["k"] == "sub":
            out += leaf_paths(node["tree"], prefix + (key,))
        else:
            out.append((prefix + (key,), node))
    return out


# ----------------------------------------------------------------------------------------------
# ranges (C04)
# ----------------------------------------------------------------------------------------------

def spec_contains(spec, ty, n):
    """Rust semantics of one count specification for a count `n` of type `ty`."""
    if ty == "f32":
        conv = rustfmt.to_f32
    elif ty == "f64":
        conv = float
    else:
        conv = int
    if isinstance(n, float) and math.isnan(n):
        return False
    if spec["r"] == "exact":
        return conv(spec["v"]) == n
    if spec["start"] is not None and not (conv(spec["start"]) <= n):
        return False
    if spec["end"] is not None:
        e = conv(spec["end"])
        return n <= e if spec["incl"] else n < e
    return True


def range_select(node, n):
    """Index of the branch rendered for count n: first branch containing n, else the fallback."""
    ty = node["ty"] or "i32"
    for i, br in enumerate(node["branches"]):
        if br["specs"] is None:
            return i
        if any(spec_contains(sp, ty, n) for sp in br["specs"]):
            return i
    return None


def range_errors(node):
    """Errors the documented rules assign to a range declaration (None when valid)."""
    ty = node["ty"] or "i32"
    isf = ty.startswith("f")
    brs = node["branches"]
    if not brs:
        return "EmptyRange"
    for i, br in enumerate(brs):
        if br["specs"] is None and i != len(brs) - 1:
            return "InvalidFallback"
    for br in brs:
        for sp in br["specs"] or []:
            if sp["r"] == "bounds":
                s, e = sp["start"], sp["end"]
                if not isf and e is not None and not sp["incl"] and e == rustfmt.INT_BOUNDS[ty][0]:
                    return "InvalidBoundEnd"
                if s is not None and e is not None:
                    if sp["incl"] and e < s:
                        return "ImpossibleRange"
                    if not sp["incl"] and e <= s:
                        return "ImpossibleRange"
    if isf and brs[-1]["specs"] is not None:
        return "MissingFallback"
    return None


# ----------------------------------------------------------------------------------------------
# resolution: abstract node -> resolved nodes (foreign keys substituted) (C06)
# ----------------------------------------------------------------------------------------------
# resolved nodes:
#   ("text", s) ("lit", ty, v) ("var", name, fmt) ("comp", name, [r]) ("range", ty, count_name, [(specs|None, [r])])
#   ("plural", rule, count_name, {form: [r]})

class Resolver:
    def __init__(self, project, plural_table=None, null_target="chain"):
        """null_target: how a reference to a key that is `null` in the referencing locale is resolved:
        "chain" = along the inherits chain (what C03/C06 state), "default" = in the default locale."""
        self.p = project
        self.plural_table = plural_table
        self.null_target = null_target
        self.stack = []

    def key(self, ns, locale, path):
        """Resolved value of a key *as defined in* `locale` (no fallback here)."""
        ident = (ns, locale, tuple(path))
        if ident in self.stack:
            raise ModelError("RecursiveForeignKey", "%s" % (ident,))
        tree = self.p["data"].get((ns, locale))
        node = lookup(tree, path) if tree is not None else None
        if node is None:
            raise ModelError("MissingForeignKey", "%s" % (ident,))
        if node["k"] == "null":
            raise ModelError("NullHere", "%s" % (ident,))
        self.stack.append(ident)
        try:
            return self.node(ns, locale, node)
        finally:
            self.stack.pop()

    def node(self, ns, locale, node):
        k = node["k"]
        if k == "lit":
            if node["ty"] == "str":
                return [("text", node["v"])] if node["v"] != "" else []
            return [("lit", node["ty"], node["v"])]
        if k == "tmpl":
            return self.segs(ns, locale, node["segs"])
        if k == "range":
            ty = node["ty"] or "i32"
            return [("range", ty, "count", [(br["specs"], self.segs(ns, locale, br["segs"])) for br in node["branches"]])]
        if k == "plural":
            return [("plural", node["rule"], "count", {f: self.segs(ns, locale, s) for f, s in node["forms"].items()})]
        if k == "sub":
            raise ModelError("InvalidForeignKey", "subkeys")
        raise ModelError("Unsupported", k)

    def segs(self, ns, locale, segs):
        out = []
        for seg in segs:
            s = seg["s"]
            if s == "text":
                out.append(("text", seg["v"]))
            elif s == "var":
                out.append(("var", seg["name"].strip(), fmt_key(seg.get("fmt"))))
            elif s == "comp":
                out.append(("comp", seg["name"].strip(), self.segs(ns, locale, seg["inner"])))
            elif s == "fk":
                out += self.fk(ns, locale, seg)
        return out

    def fk(self, ns, locale, seg):
        tns = seg.get("ns")
        path = seg["path"]
        has_ns = self.p["cfg"].get("namespaces") is not None
        if has_ns != (tns is not None):
            raise ModelError("MissingForeignKey", "namespace mismatch")
        tree = self.p["data"].get((tns, locale))
        node = lookup(tree, path) if tree is not None else None
        if node is None:
            raise ModelError("MissingForeignKey", ".".join(path))
        tloc = locale
        if node["k"] == "null":
            default = self.p["cfg"]["default"]
            if locale == default:
                raise ModelError("ExplicitDefaultInDefault", ".".join(path))
            if self.null_target == "chain":
                tloc = effective_locale(self.p, tns, locale, path)
            else:
                tloc = default
                dn = lookup(self.p["data"].get((tns, default)) or [], path)
                if dn is None:
                    raise ModelError("MissingForeignKey", ".".join(path))
                if dn["k"] == "null":
                    raise ModelError("ExplicitDefaultInDefault", ".".join(path))
        target = self.key(tns, tloc, path)
        args = {}
        for name, arg in (seg.get("args") or []):
            name = name.strip()
            if arg["a"] == "str":
                args[name] = self.segs(ns, locale, arg["segs"])
            else:
                args[name] = [("lit", arg["a"], arg["v"])]
        return self.substitute(target, args, locale)

    def substitute(self, rnodes, args, locale):
        out = []
        for r in rnodes:
            t = r[0]
            if t == "var":
                if r[1] in args:
                    out += args[r[1]]
                else:
                    out.append(r)
            elif t == "comp":
                out.append(("comp", r[1], self.substitute(r[2], args, locale)))
            elif t == "range":
                _, ty, cname, branches = r
                if "count" in args:
                    carg = strip_ws_text(args["count"])
                    if len(carg) == 1 and carg[0][0] == "lit":
                        n = count_literal(carg[0], ty)
                        node = {"ty": ty, "branches": [{"specs": sp} for sp, _ in branches]}
                        i = range_select(node, n)
                        if i is None:
                            raise ModelError("NoMatchingBranch", "literal count %r matches no branch" % (n,))
                        out += self.substitute(branches[i][1], args, locale)
                    elif len(carg) == 1 and carg[0][0] == "var":
                        out.append(("range", ty, carg[0][1], [(sp, self.substitute(b, args, locale)) for sp, b in branches]))
                    else:
                        raise ModelError("InvalidCountArg", "")
                else:
                    out.append(("range", ty, cname, [(sp, self.substitute(b, args, locale)) for sp, b in branches]))
            elif t == "plural":
                _, rule, cname, forms = r
                if "count" in args:
                    carg = strip_ws_text(args["count"])
                    if len(carg) == 1 and carg[0][0] == "lit":
                        lit = carg[0]
                        if lit[1] == "bool":
                            raise ModelError("InvalidCountArg", "bool")
                        cat = self.category(locale, rule, lit)
                        branch = forms.get(cat, forms["other"])
                        out += self.substitute(branch, args, locale)
                    elif len(carg) == 1 and carg[0][0] == "var":
                        out.append(("plural", rule, carg[0][1], {f: self.substitute(b, args, locale) for f, b in forms.items()}))
                    else:
                        raise ModelError("InvalidCountArg", "")
                else:
                    out.append(("plural", rule, cname, {f: self.substitute(b, args, locale) for f, b in forms.items()}))
            else:
                out.append(r)
        return out

    def category(self, locale, rule, lit):
        if self.plural_table is None:
            raise ModelError("NoPluralTable", "")
        key = lit_count_key(lit)
        try:
            return self.plural_table[locale][rule]["cat"][key]
        except KeyError:
            raise ModelError("NoPluralTable", "count %s not in the oracle table" % key)


def lit_count_key(lit):
    _, ty, v = lit
    if ty == "float":
        return fixed_decimal_str(v)
    return str(v)


def fixed_decimal_str(v):
    """FixedDecimal::try_from_f64(v, Floating) keeps the shortest round-trip digits."""
    return rustfmt.f64_display(v)


def strip_ws_text(rnodes):
    return [r for r in rnodes if not (r[0] == "text" and r[1].strip() == "")]


def count_literal(lit, ty):
    _, lty, v = lit
    isf = ty.startswith("f")
    if lty == "bool":
        raise ModelError("InvalidCountArg", "bool")
    if lty == "float":
        if not isf:
            raise ModelError("InvalidCountArgType", "float literal for %s" % ty)
        return rustfmt.to_f32(v) if ty == "f32" else float(v)
    # int literal
    if isf:
        raise ModelError("InvalidCountArgType", "int literal for %s" % ty)
    lo, hi = rustfmt.INT_BOUNDS[ty]
    if not (lo <= v <= hi):
        raise ModelError("CountArgOutsideRange", "%r for %s" % (v, ty))
    return int(v)


def fmt_key(fmt):
    if not fmt:
        return None
    return fmt["name"].strip()


# ----------------------------------------------------------------------------------------------
# rendering (C01)
# ----------------------------------------------------------------------------------------------

OPEN = "⟦%s:"
CLOSE = ":%s⟧"


def lit_display(ty, v):
    if ty == "float":
        return rustfmt.f64_display(float(v))
    if ty == "bool":
        return "true" if v else "false"
    return str(v)


def render_rnodes(rnodes, args, locale, plural_table=None, counts=None):
    """args: var name -> display string; counts: count var name -> (ty, numeric value)."""
    out = []
    for r in rnodes:
        t = r[0]
        if t == "text":
            out.append(r[1])
        elif t == "lit":
            out.append(lit_display(r[1], r[2]))
        elif t == "var":
            name = r[1]
            if counts and name in counts:
                out.append(rustfmt.display_count(*counts[name]))
            else:
                out.append(args[name])
        elif t == "comp":
            out.append(OPEN % r[1] + render_rnodes(r[2], args, locale, plural_table, counts) + CLOSE % r[1])
        elif t == "range":
            _, ty, cname, branches = r
            cty, n = counts[cname]
            node = {"ty": ty, "branches": [{"specs": sp} for sp, _ in branches]}
            i = range_select(node, n)
            if i is None:
                raise ModelError("NoMatchingBranch", "")
            out.append(render_rnodes(branches[i][1], args, locale, plural_table, counts))
        elif t == "plural":
            _, rule, cname, forms = r
            cty, n = counts[cname]
            cat = plural_table[locale][rule]["cat"][str(n)]
            out.append(render_rnodes(forms.get(cat, forms["other"]), args, locale, plural_table, counts))
    return "".join(out)


def collect_vars(rnodes, vars_=None, comps=None, counts=None):
    """Variables / components / count variables of a resolved value."""
    vars_ = {} if vars_ is None else vars_
    comps = set() if comps is None else comps
    counts = {} if counts is None else counts
    for r in rnodes:
        t = r[0]
        if t == "var":
            vars_.setdefault(r[1], set()).add(r[2])
        elif t == "comp":
            comps.add(r[1])
            collect_vars(r[2], vars_, comps, counts)
        elif t == "range":
            counts.setdefault(r[2], set()).add("range:" + r[1])
            vars_.setdefault(r[2], set())
            for _, b in r[3]:
                collect_vars(b, vars_, comps, counts)
        elif t == "plural":
            counts.setdefault(r[2], set()).add("plural")
            vars_.setdefault(r[2], set())
            for b in r[3].values():
                collect_vars(b, vars_, comps, counts)
    return vars_, comps, counts


# ----------------------------------------------------------------------------------------------
# diagnostics (C07)
# ----------------------------------------------------------------------------------------------

def key_warnings(project, suppress=False):
    """Multiset (as sorted list) of ("missing"|"surplus", locale, "ns::a.b") the documented rules give."""
    cfg = project["cfg"]
    locs = effective_locales(cfg)
    default = locs[0]
    inherits = cfg.get("inherits") or {}
    out = []
    for ns in (cfg.get("namespaces") or [None]):
        dtree = project["data"][(ns, default)]
        for l in locs[1:]:
            ltree = project["data"][(ns, l)]
            _cmp_trees(dtree, ltree, l, ns, (), l in inherits, out)
    if suppress:
        return []
    return sorted(out)


def path_str(ns, path):
    s = ".".join(path)
    return "%s::%s" % (ns, s) if ns is not None else s


def _cmp_trees(dtree, ltree, l, ns, prefix, inheriting, out):
    dkeys = [k for k, _ in dtree]
    for key, dnode in dtree:
        lnode = tree_get(ltree, key)
        if lnode is None:
            if not inheriting:
                out.append(("missing", l, path_str(ns, prefix + (key,))))
            continue
        if lnode["k"] == "null":
            continue
        if dnode["k"] == "sub":
            if lnode["k"] != "sub":
                raise ModelError("SubKeyMissmatch", path_str(ns, prefix + (key,)))
            _cmp_trees(dnode["tree"], lnode["tree"], l, ns, prefix + (key,), inheriting, out)
        elif lnode["k"] == "sub":
            raise ModelError("SubKeyMissmatch", path_str(ns, prefix + (key,)))
    for key, _ in ltree:
        if key not in dkeys:
            out.append(("surplus", l, path_str(ns, prefix + (key,))))
