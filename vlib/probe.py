"""Drivers for the Rust probes: batched child processes with crash attribution (a batch that dies
is re-run from the case after the one that killed it), CPU-time limits instead of wall clocks."""
import json
import os
import resource
import signal
import subprocess
import time

from .common import Inconclusive, cargo_build, WORK, NCPU

PP = {"json": "pp_json", "json5": "pp_json5", "yaml": "pp_yaml", "json_suppress": "pp_json_suppress"}
_built = {}


def parser_probe(variant="json", release=False):
    key = (variant, release)
    if key not in _built:
        _built[key] = cargo_build(PP[variant], release=release)
    return _built[key]


def codegen_probe(variant="default"):
    """Regenerates the `#[path]` module list from the real lib.rs of the macro crate, then builds."""
    import re
    from .common import REPO, HARNESS
    key = ("cg", variant)
    if key not in _built:
        src = open(os.path.join(REPO, "leptos_i18n_macro", "src", "lib.rs")).read()
        mods = re.findall(r'^(?:pub(?:\(crate\))?\s+)?mod\s+(\w+)\s*;', src, re.M)
        lines = []
        for m in mods:
            base = os.path.join(REPO, "leptos_i18n_macro", "src")
            p = os.path.join(base, m + ".rs") if os.path.exists(os.path.join(base, m + ".rs")) else os.path.join(base, m, "mod.rs")
            lines.append('#[path = "%s"]\npub(crate) mod %s;' % (p, m))
        new = "\n".join(lines) + "\n"
        path = os.path.join(HARNESS, "codegen_probe", "src", "mods.rs")
        if not os.path.exists(path) or open(path).read() != new:
            with open(path, "w") as f:
                f.write(new)
        _built[key] = cargo_build("cg_" + variant)
    return _built[key]


def build_probe():
    key = ("bp",)
    if key not in _built:
        _built[key] = cargo_build("build_probe")
    return _built[key]


def _limits(cpu_s, mem_gb=8):
    def f():
        resource.setrlimit(resource.RLIMIT_CPU, (cpu_s, cpu_s + 2))
        resource.setrlimit(resource.RLIMIT_AS, (mem_gb << 30, mem_gb << 30))
        resource.setrlimit(resource.RLIMIT_CORE, (0, 0))
    return f


def run_batch(binary, cases, cpu_per_case=20, wall_timeout=None, args=None, env=None, limits=True):
    """cases: list of dicts with "id". Returns {id: result dict}. A case whose process died gets
    {"outcome": "killed", "signal": .., "cpu_limit": bool}; cases after it are re-run in a fresh process."""
    results = {}
    pending = list(cases)
    while pending:
        inp = "\n".join(json.dumps(c, ensure_ascii=False) for c in pending) + "\n"
        cpu = int(cpu_per_case + 10 + 0.05 * len(pending))
        t0 = time.time()
        try:
            p = subprocess.run([binary] + (args or []), input=inp.encode("utf-8"), stdout=subprocess.PIPE,
                               stderr=subprocess.PIPE, preexec_fn=_limits(cpu) if limits else None, env=env,
                               timeout=wall_timeout or (600 + 2 * len(pending)))
            out, rc, timed_out = p.stdout, p.returncode, False
            err = p.stderr
        except subprocess.TimeoutExpired as e:
            out, rc, timed_out, err = e.stdout or b"", None, True, e.stderr or b""
        begun = None
        done = set()
        for line in out.decode("utf-8", "replace").split("\n"):
            try:
                d = json.loads(line)
            except (ValueError, RecursionError):
                continue
            if "begin" in d:
                begun = d["begin"]
            elif "id" in d:
                results[d["id"]] = d
                done.add(d["id"])
        if rc == 0 and not timed_out:
            missing = [c for c in pending if c["id"] not in done]
            for c in missing:
                results[c["id"]] = {"id": c["id"], "outcome": "lost"}
            break
        # the process died: attribute to the case that had begun but not finished
        idx = None
        for i, c in enumerate(pending):
            if c["id"] == begun and begun not in done:
                idx = i
                break
        if idx is None:
            # died outside a case (startup / after the last): nothing to attribute
            if timed_out:
                raise Inconclusive("probe wall-clock watchdog fired outside any case")
            missing = [c for c in pending if c["id"] not in done]
            if not missing:
                break
            raise Inconclusive("probe died (rc=%r) outside any case: %s" % (rc, err.decode("utf-8", "replace")[-400:]))
        sig = -rc if (rc is not None and rc < 0) else None
        stderr_tail = err.decode("utf-8", "replace")[-600:]
        if timed_out:
            results[begun] = {"id": begun, "outcome": "wall_timeout", "stderr": stderr_tail}
        else:
            results[begun] = {"id": begun, "outcome": "killed", "signal": sig, "rc": rc,
                              "cpu_limit": sig in (signal.SIGXCPU, signal.SIGKILL) and (time.time() - t0) >= cpu * 0.9,
                              "stack_overflow": "overflowed its stack" in stderr_tail,
                              "stderr": stderr_tail}
        pending = pending[idx + 1:]
    return results


def run_parallel(binary, cases, workers=NCPU, **kw):
    """Splits cases over worker processes (order of results irrelevant: keyed by id)."""
    from concurrent.futures import ThreadPoolExecutor
    if not cases:
        return {}
    workers = max(1, min(workers, len(cases)))
    chunks = [cases[i::workers] for i in range(workers)]
    results = {}
    with ThreadPoolExecutor(workers) as ex:
        for r in ex.map(lambda ch: run_batch(binary, ch, **kw), chunks):
            results.update(r)
    return results


_plural_cache = {}


def plural_table(locales, counts):
    """ICU4X categories (trusted CLDR oracle) for locales x counts (counts given as strings)."""
    key = (tuple(sorted(set(locales))), tuple(counts))
    if key in _plural_cache:
        return _plural_cache[key]
    binary = parser_probe("json")
    req = json.dumps({"locales": sorted(set(locales)), "counts": list(counts)})
    p = subprocess.run([binary, "plurals"], input=req + "\n", stdout=subprocess.PIPE, text=True, timeout=120)
    if p.returncode != 0:
        raise Inconclusive("plural table probe failed")
    _plural_cache[key] = json.loads(p.stdout)
    return _plural_cache[key]


def runtime_probe():
    key = ("rt",)
    if key not in _built:
        _built[key] = cargo_build("runtime_probe", release=True)
    return _built[key]


def router_probe():
    key = ("router",)
    if key not in _built:
        _built[key] = cargo_build("router_probe")
    return _built[key]


def required_keys():
    """{family: [data keys]} ICU4X demands from a provider to build that family's formatter (runtime_probe required)."""
    p = subprocess.run([runtime_probe(), "required"], stdout=subprocess.PIPE, text=True, timeout=60)
    if p.returncode != 0:
        raise Inconclusive("runtime_probe required failed")
    return json.loads(p.stdout)
