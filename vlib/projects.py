"""Generation of *valid* projects (every documented validity rule respected) for the
verdict-bearing text oracles. Invalid / adversarial projects live in the C09 and C19 workloads."""
from . import gen
from .gen import GenCfg, pick


def plain_cfg(cfg):
    return GenCfg(**{**cfg.__dict__, "p_range": 0, "p_plural": 0, "p_lit_other": 0})


def gen_plain(rng, cfg, fk_targets=None):
    segs = gen.gen_segs(rng, cfg, allow_fk=bool(fk_targets), fk_targets=fk_targets)
    if len(segs) == 1 and segs[0]["s"] == "text":
        return {"k": "lit", "ty": "str", "v": segs[0]["v"]}
    return {"k": "tmpl", "segs": segs}


def count_kind(node):
    if node["k"] == "range":
        return ("range", node["ty"] or "i32")
    if node["k"] == "plural":
        return ("plural", node["rule"])
    return None


def direct_vars(segs, out=None):
    out = [] if out is None else out
    for seg in segs:
        if seg["s"] == "var" and seg["name"].strip() not in out:
            out.append(seg["name"].strip())
        elif seg["s"] == "comp":
            direct_vars(seg["inner"], out)
    return out


ARG_TEXT = ["arg", "é ", " x", "42", "日本", "a b"]


def fk_maker(ns, path, node=None, p_args=0.0):
    """A reference to `path`; with probability p_args it carries arguments for some of the variables written in the
    target: a string, a number, a boolean, or a string with its own variable / component."""
    def make(rng):
        args = None
        if node is not None and rng.random() < p_args:
            args = []
            names = [n for n in (direct_vars(node["segs"]) if node["k"] == "tmpl" else []) if n != "count"]
            for name in names:
                if rng.random() < 0.6:
                    kind = pick(rng, ["str", "int", "float", "bool", "interp", "comp"])
                    if kind == "str":
                        arg = {"a": "str", "segs": [{"s": "text", "v": pick(rng, ARG_TEXT)}]}
                    elif kind == "int":
                        arg = {"a": "int", "v": pick(rng, [0, 5, 56, -3, 2**40])}
                    elif kind == "float":
                        arg = {"a": "float", "v": pick(rng, [1.5, -0.25, 3.0, 100.5])}
                    elif kind == "bool":
                        arg = {"a": "bool", "v": rng.random() < 0.5}
                    elif kind == "interp":
                        arg = {"a": "str", "segs": [{"s": "text", "v": pick(rng, ARG_TEXT)}, {"s": "var", "name": "av%d" % rng.randint(0, 2), "fmt": None}]}
                    else:
                        arg = {"a": "str", "segs": [{"s": "comp", "name": pick(rng, ["b", "i", "em"]), "inner": [{"s": "text", "v": pick(rng, ARG_TEXT)}]}]}
                    args.append([name, arg])
            if rng.random() < 0.15:
                args.append(["unused_arg", {"a": "str", "segs": [{"s": "text", "v": "discarded"}]}])
        return {"s": "fk", "ns": ns, "path": list(path), "args": args}
    return make


def gen_level(rng, cfg, ns, locales, default, depth, prefix, fk_pool, nodes=None):
    """Returns {locale: tree} for one level. fk_pool[locale] = list of (path) of plain keys already
    generated in that locale (rank order = generation order, so references are acyclic)."""
    nodes = {} if nodes is None else nodes
    p_args = getattr(cfg, "p_fk_args", 0.35)

    def makers(l):
        return [fk_maker(ns, p, nodes.get((l, p)), p_args) for p in fk_pool[l][-6:]]
    n = rng.randint(*cfg.n_keys) if depth == 0 else rng.randint(1, 4)
    names = gen.gen_key_names(rng, n, cfg.key_pool)
    trees = {l: [] for l in locales}
    order = list(names)
    rng.shuffle(order)
    for name in order:
        path = prefix + (name,)
        if depth < cfg.max_depth and rng.random() < cfg.p_sub:
            presence = {}
            for l in locales:
                r = rng.random()
                presence[l] = "def" if l == default or r > cfg.p_absent + cfg.p_null else ("null" if r < cfg.p_null else "absent")
            sub_locales = [l for l in locales if presence[l] == "def"]
            sub = gen_level(rng, cfg, ns, sub_locales, default, depth + 1, path, fk_pool, nodes)
            for l in locales:
                if presence[l] == "def":
                    trees[l].append([name, {"k": "sub", "tree": sub[l]}])
                elif presence[l] == "null":
                    trees[l].append([name, {"k": "null"}])
            continue
        base = gen.gen_value(rng, cfg)
        if base["k"] in ("tmpl",) or (base["k"] == "lit" and base["ty"] == "str"):
            if rng.random() < cfg.p_fk and fk_pool[default]:
                base = gen_plain(rng, cfg, makers(default))
        ck = count_kind(base)
        for l in locales:
            if l == default:
                node = base
            else:
                r = rng.random()
                if r < cfg.p_absent:
                    continue
                if r < cfg.p_absent + cfg.p_null:
                    trees[l].append([name, {"k": "null"}])
                    continue
                if rng.random() < getattr(cfg, "p_lit_mix", 0.05):
                    # a bare number / boolean where other locales interpolate (or write a string): legal, the key keeps the
                    # union of the other locales' arguments and this locale renders the literal
                    node = gen.gen_value(rng, GenCfg(**{**cfg.__dict__, "p_range": 0, "p_plural": 0, "p_lit_other": 1.0}))
                elif rng.random() < cfg.mix_kinds:
                    # own kind, as long as count typing stays consistent across locales
                    choice = rng.random()
                    if ck is not None and choice < 0.5:
                        node = gen.regen_like(rng, cfg, base)
                    else:
                        tg = makers(l) if rng.random() < cfg.p_fk else None
                        node = gen_plain(rng, cfg, tg)
                else:
                    if base["k"] == "lit" and base["ty"] != "str":
                        node = dict(base)
                        if rng.random() < 0.5:
                            node = gen.gen_value(rng, GenCfg(**{**cfg.__dict__, "p_range": 0, "p_plural": 0, "p_lit_other": 1.0}))
                    elif ck is not None:
                        node = gen.regen_like(rng, cfg, base)
                    else:
                        tg = makers(l) if rng.random() < cfg.p_fk else None
                        node = gen_plain(rng, cfg, tg)
            trees[l].append([name, node])
            if node["k"] == "tmpl" or (node["k"] == "lit" and node["ty"] == "str"):
                fk_pool[l].append(path)
                nodes[(l, path)] = node
    for l in locales:
        if l != default and rng.random() < cfg.p_surplus:
            trees[l].append([pick(rng, ["surplus_a", "extra_b", "only_here", "zz_top"]) + str(depth), gen_plain(rng, cfg)])
        rng.shuffle(trees[l])
    return trees


def gen_valid_project(rng, cfg=None):
    cfg = cfg or GenCfg()
    nloc = rng.randint(*cfg.n_locales)
    pool = list(cfg.locale_pool)
    rng.shuffle(pool)
    locales = pool[:nloc]
    default = locales[0]
    listed = list(locales)
    rng.shuffle(listed)
    inherits = gen.gen_inherits(rng, locales, default) if rng.random() < cfg.p_inherits else {}
    if getattr(cfg, "inherit_from_listed_only", True):
        pass
    if rng.random() < 0.2 and default not in inherits.values():
        listed.remove(default)
    namespaces = None
    if rng.random() < cfg.namespaces:
        nsp = list(gen.NS_POOL)
        rng.shuffle(nsp)
        namespaces = nsp[:rng.randint(1, 3)]
    project = {"cfg": {"default": default, "locales": listed, "namespaces": namespaces, "inherits": inherits,
                       "locales_dir": None if rng.random() < 0.8 else pick(rng, ["i18n", "./translations", "a/b"])},
               "data": {}}
    for ns in (namespaces or [None]):
        fk_pool = {l: [] for l in locales}
        trees = gen_level(rng, cfg, ns, locales, default, 0, (), fk_pool)
        for l in locales:
            project["data"][(ns, l)] = trees[l]
    if getattr(cfg, "force_inherits", False) and len(locales) >= 3:
        # a chain default <- parent <- child (<- grandchild) in which the children leave about half of their keys to the parent
        chain = [l for l in locales if l != default]
        inh = {chain[1]: chain[0]}
        if len(chain) >= 3:
            inh[chain[2]] = chain[1]
        project["cfg"]["inherits"] = inh
        def leave_to_parent(tree):
            # leaves only: a reference into a group that is null as a whole has no documented reading
            for entry in tree:
                if entry[1]["k"] == "sub":
                    leave_to_parent(entry[1]["tree"])
                elif entry[1]["k"] != "null" and rng.random() < 0.5:
                    entry[1] = {"k": "null"}
        for (ns, l), tree in project["data"].items():
            if l in inh:
                leave_to_parent(tree)
    # long values: more than 26 flattened segments exercise the tuple chunking of the view generator
    for n in (getattr(cfg, "long_keys", None) or []):
        ns = pick(rng, namespaces or [None])
        for l in locales:
            project["data"][(ns, l)].append(["long_%d" % n, long_template(rng, cfg, n, l)])
    return project


def long_template(rng, cfg, n, tag):
    """A template that flattens to exactly n segments (alternating distinct text and variables, a few components)."""
    segs = []
    for i in range(n):
        if i % 2 == 0:
            segs.append({"s": "text", "v": "%s%d " % (tag, i)})
        elif i % 11 == 5:
            segs.append({"s": "comp", "name": pick(rng, cfg.comp_pool[:4]), "inner": [{"s": "text", "v": "c%d" % i}]})
        else:
            segs.append({"s": "var", "name": pick(rng, cfg.var_pool[:5]), "fmt": None})
    return {"k": "tmpl", "segs": segs}
