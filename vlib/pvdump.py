"""Evaluator over the ParsedValue trees dumped by parser_probe: the harness's own interpretation of
what the parser produced, independent of the code generator. String literals are read through the
locale's string table (index), never through the embedded copy."""
import math

from . import rustfmt
from .model import OPEN, CLOSE


class DumpError(Exception):
    pass


def _num(s, ty):
    if ty == "f32":
        return rustfmt.to_f32(float(s))     # the dump prints the shortest digits that round-trip as f32
    if ty == "f64":
        return float(s)     # handles "inf", "NaN", "-inf", "1.5", "1e20"
    return int(s)


def range_matches(r, ty, n):
    k = r["k"]
    if k == "fallback":
        return True
    if isinstance(n, float) and math.isnan(n):
        return False
    if k == "exact":
        return _num(r["v"], ty) == n
    if k == "bounds":
        if r["start"] is not None and not (_num(r["start"], ty) <= n):
            return False
        e = r["end"]
        if e["k"] == "inc":
            return n <= _num(e["v"], ty)
        if e["k"] == "exc":
            return n < _num(e["v"], ty)
        return True
    if k == "multi":
        return any(range_matches(x, ty, n) for x in r["items"])
    raise DumpError("unknown range kind %r" % k)


def select_branch(pv, n):
    ty = pv["rtype"]
    for i, br in enumerate(pv["branches"]):
        if range_matches(br["range"], ty, n):
            return i
    return None


def evaluate(pv, strings, args, counts, locale, plural_table, use_index=True, notes=None):
    """args: "var_x" -> display string; counts: "var_count" -> (ty, n)."""
    t = pv["t"]
    if t == "lit":
        if pv["k"] == "s":
            if use_index:
                i = pv.get("i")
                if i is None:
                    raise DumpError("string literal %r carries no index" % pv["v"])
                if i >= len(strings):
                    raise DumpError("string index %d out of table of %d" % (i, len(strings)))
                return strings[i]
            return pv["v"]
        return pv["v"]
    if t == "var":
        name = pv["key"]
        if counts and name in counts:
            return rustfmt.display_count(*counts[name])
        if name not in args:
            raise DumpError("variable %s not supplied" % name)
        return args[name]
    if t == "comp":
        n = pv["key"]
        assert n.startswith("comp_")
        n = n[5:]
        return OPEN % n + evaluate(pv["inner"], strings, args, counts, locale, plural_table, use_index) + CLOSE % n
    if t == "bloc":
        return "".join(evaluate(x, strings, args, counts, locale, plural_table, use_index) for x in pv["items"])
    if t == "ranges":
        ck = pv["count_key"]
        if ck not in counts:
            raise DumpError("count %s not supplied" % ck)
        cty, n = counts[ck]
        i = select_branch(pv, n)
        if i is None:
            raise DumpError("no branch matches count %r" % (n,))
        return evaluate(pv["branches"][i]["value"], strings, args, counts, locale, plural_table, use_index)
    if t == "plurals":
        ck = pv["count_key"]
        if ck not in counts:
            raise DumpError("count %s not supplied" % ck)
        cty, n = counts[ck]
        cat = plural_table[locale][pv["rule"]]["cat"][str(n)]
        branch = pv["forms"].get(cat, pv["other"]) if cat != "other" else pv["other"]
        return evaluate(branch, strings, args, counts, locale, plural_table, use_index)
    if t == "fk":
        if pv.get("set"):
            return evaluate(pv["inner"], strings, args, counts, locale, plural_table, use_index)
        raise DumpError("unresolved foreign key left in the tree")
    raise DumpError("cannot evaluate node %r" % t)


def walk(pv, f):
    """Calls f(node) on every ParsedValue node."""
    f(pv)
    t = pv["t"]
    if t == "comp":
        walk(pv["inner"], f)
    elif t == "bloc":
        for x in pv["items"]:
            walk(x, f)
    elif t == "ranges":
        for br in pv["branches"]:
            walk(br["value"], f)
    elif t == "plurals":
        for x in pv["forms"].values():
            walk(x, f)
        walk(pv["other"], f)
    elif t == "fk" and pv.get("set"):
        walk(pv["inner"], f)
    elif t == "subkeys" and pv.get("locale"):
        for _, v in pv["locale"]["keys"]:
            walk(v, f)


def top_locales(bk):
    """[(ns|None, [locale dumps])]"""
    if bk["kind"] == "namespaces":
        return [(ns["key"], ns["locales"]) for ns in bk["namespaces"]]
    return [(None, bk["locales"])]


def keys_of(bk, ns):
    if bk["kind"] == "namespaces":
        for k, v in bk["keys"]:
            if k == ns:
                return v
        return None
    return bk["keys"]


def find_key(keys, path):
    """LocaleValue dump at a key path within a BuildersKeysInner dump; returns (entry, chain of
    subkey locale lists) or (None, ..)."""
    cur = keys
    entry = None
    for i, key in enumerate(path):
        entry = None
        for k, v in cur:
            if k == key:
                entry = v
                break
        if entry is None:
            return None
        if i + 1 < len(path):
            if entry["t"] != "subkeys":
                return None
            cur = entry["keys"]
    return entry


def locale_value_at(locale_dump, path):
    """ParsedValue dump for a path inside a top-level locale dump (descending through Subkeys)."""
    cur = locale_dump
    pv = None
    for i, key in enumerate(path):
        pv = None
        for k, v in cur["keys"]:
            if k == key:
                pv = v
                break
        if pv is None:
            return None, cur
        if i + 1 < len(path):
            if pv["t"] != "subkeys" or pv.get("locale") is None:
                return None, cur
            cur = pv["locale"]
    return pv, cur


def sub_locale_value_at(bk, ns, locale_name, path):
    """After check_locales the per-locale values of nested keys live in LocaleValue::Subkeys.locales
    (the top-level ParsedValue::Subkeys has been emptied). Walk the keys tree instead."""
    keys = keys_of(bk, ns)
    tops = dict(top_locales(bk))[ns]
    locales = tops
    cur = keys
    for i, key in enumerate(path):
        if i + 1 == len(path):
            for l in locales:
                if l["top"] == locale_name:
                    for k, v in l["keys"]:
                        if k == key:
                            return v, l
                    return None, l
            return None, None
        entry = None
        for k, v in cur:
            if k == key:
                entry = v
                break
        if entry is None or entry["t"] != "subkeys":
            return None, None
        locales = entry["locales"]
        cur = entry["keys"]
    return None, None
