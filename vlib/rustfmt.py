"""Rust `Display` for the primitive types that can end up in rendered text."""
import math
import struct


def f64_display(x):
    """Rust's `{}` for f64: shortest round-trip digits, never an exponent."""
    if math.isnan(x):
        return "NaN"
    if math.isinf(x):
        return "inf" if x > 0 else "-inf"
    if x == 0:
        return "-0" if math.copysign(1.0, x) < 0 else "0"
    r = repr(float(x))
    sign = ""
    if r[0] == "-":
        sign, r = "-", r[1:]
    if "e" in r:
        mant, exp = r.split("e")
        exp = int(exp)
        if "." in mant:
            ip, fp = mant.split(".")
        else:
            ip, fp = mant, ""
        digits = ip + fp
        pos = len(ip) + exp
        if pos <= 0:
            s = "0." + "0" * (-pos) + digits
        elif pos >= len(digits):
            s = digits + "0" * (pos - len(digits))
        else:
            s = digits[:pos] + "." + digits[pos:]
    else:
        s = r
    if "." in s:
        s = s.rstrip("0").rstrip(".")
    return sign + s


def to_f32(x):
    try:
        return struct.unpack("f", struct.pack("f", x))[0]
    except OverflowError:
        return math.inf if x > 0 else -math.inf


def f32_display(x):
    """Rust's `{}` for f32 (shortest digits that round-trip *as f32*)."""
    x = to_f32(x)
    if math.isnan(x) or math.isinf(x) or x == 0:
        return f64_display(x)
    for prec in range(1, 12):
        s = "%.*e" % (prec - 1, x)
        if to_f32(float(s)) == x:
            return f64_display(float(s))
    return f64_display(x)


INT_BOUNDS = {
    "i8": (-2**7, 2**7 - 1), "i16": (-2**15, 2**15 - 1), "i32": (-2**31, 2**31 - 1), "i64": (-2**63, 2**63 - 1),
    "u8": (0, 2**8 - 1), "u16": (0, 2**16 - 1), "u32": (0, 2**32 - 1), "u64": (0, 2**64 - 1),
}


def display_count(ty, v):
    if ty == "f32":
        return f32_display(v)
    if ty == "f64":
        return f64_display(v)
    return str(int(v))
