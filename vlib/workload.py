"""Helpers shared by the parser-level checks: materialise abstract projects, run them through the
parser probe, walk (namespace, locale, key) triples with model expectations."""
import os
import shutil

from . import gen, model, probe, pvdump
from .common import WORK, rng_for

PLURAL_COUNTS = [str(i) for i in range(0, 201)] + ["1000", "1000000", "1000001", "18446744073709551615",
                                                  "1.0", "1.5", "0.0", "2.0", "0.5", "10.0", "-1", "-5",
                                                  "-2", "-3", "-11", "-21", "-22", "-101", "-128", "255", "65535", "2147483647", "-2147483648",
                                                  "9223372036854775807", "-9223372036854775808"]


def materialise(projects, tag, fmt="json", seed=0, surface_kw=None, shuffle=False):
    """Writes projects under work/<tag>/<i>/ ; returns list of dirs and plain data."""
    root = os.path.join(WORK, "proj", tag)
    if os.path.exists(root):
        shutil.rmtree(root)
    dirs, plains = [], []
    for i, p in enumerate(projects):
        d = os.path.join(root, str(i))
        rng = rng_for(seed, tag, i, "surface")
        surface = gen.Surface(rng, **(surface_kw or {}))
        plains.append(gen.write_project(p, d, fmt=fmt, rng=rng, surface=surface, shuffle=shuffle))
        dirs.append(d)
    return dirs, plains


def run_projects(dirs, variant="json", mode="full", release=False, cpu_per_case=20):
    binary = probe.parser_probe(variant, release=release)
    cases = [{"id": i, "dir": d, "mode": mode} for i, d in enumerate(dirs)]
    res = probe.run_parallel(binary, cases, cpu_per_case=cpu_per_case)
    return [res.get(i, {"id": i, "outcome": "lost"}) for i in range(len(dirs))]


def all_locales(project):
    return gen.effective_locales(project["cfg"])


def plural_table_for(projects):
    locs = set()
    for p in projects:
        locs.update(all_locales(p))
    return probe.plural_table(sorted(locs), PLURAL_COUNTS)


def choose_args(rnodes, rng, n_assignments=3):
    """Argument assignments for a resolved value: distinct display strings for variables, and for
    count variables numeric values around the declared boundaries."""
    vars_, comps, counts = model.collect_vars(rnodes)
    assignments = []
    cand = {}
    for cname, kinds in counts.items():
        kind = sorted(kinds)[0]
        if kind == "plural":
            cand[cname] = ("plural", [0, 1, 2, 3, 4, 5, 6, 11, 12, 21, 22, 23, 100, 101, 111, 1000000])
        else:
            ty = kind.split(":")[1]
            cand[cname] = (ty, boundary_counts(rnodes, cname, ty, rng))
    for _ in range(n_assignments if cand else 1):
        args = {}
        cvals = {}
        for v in vars_:
            if v in cand:
                ty, vals = cand[v]
                n = vals[rng.randrange(len(vals))]
                cvals[v] = ("u64" if ty == "plural" else ty, n)
            else:
                args[v] = "«%s=%s»" % (v, gen.pick(rng, ["A", "zz", "& < > \" '", "42", "é", ""]))
        assignments.append((args, cvals))
    return assignments, vars_, comps, counts


def boundary_counts(rnodes, cname, ty, rng):
    from .rustfmt import INT_BOUNDS, to_f32
    vals = set()
    isf = ty.startswith("f")

    def visit(rs):
        for r in rs:
            if r[0] == "range" and r[2] == cname:
                for specs, b in r[3]:
                    for sp in specs or []:
                        for x in ([sp["v"]] if sp["r"] == "exact" else [sp["start"], sp["end"]]):
                            if x is None:
                                continue
                            if isf:
                                vals.update([float(x), float(x) + 0.25, float(x) - 0.25, float(x) + 1e-3])
                            else:
                                vals.update([x - 1, x, x + 1])
                    visit(b)
            elif r[0] == "comp":
                visit(r[2])
            elif r[0] == "plural":
                for b in r[3].values():
                    visit(b)
    visit(rnodes)
    if isf:
        vals.update([0.0, -0.0, 1.0, -1.0, 1e9, -1e9, float("inf"), float("-inf")])
        out = [to_f32(v) if ty == "f32" else float(v) for v in vals]
    else:
        lo, hi = INT_BOUNDS[ty]
        vals.update([lo, hi, 0, 1, rng.randint(lo, hi), rng.randint(max(lo, -50), min(hi, 50))])
        out = [v for v in vals if lo <= v <= hi]
    return sorted(set(out))


def dump_args(args, cvals):
    """model args -> dump-evaluator args (var_ prefix)."""
    return ({"var_" + k: v for k, v in args.items()}, {"var_" + k: v for k, v in cvals.items()})
